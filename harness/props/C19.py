"""C19 - equivalent construction forms build equal objects.

Decided by: Barril/Props/C19.lean (generic theorems about the `Ctor` model: the documented forms of
Scalar/Array/FixedArray/FractionScalar build one and the same object whenever the default category of
the unit resolves and the category accepts the unit; category-only = (default value, default unit,
category); eval(repr) of a Scalar gives the Scalar back when nothing needs escaping) + generated
`decide +kernel` table theorems over the default POSC database (every unit row's default category
is a registered category of the row's quantity type; every category's default unit is a registered unit
of the category's quantity type; no symbol or category name needs escaping) - predicates
`UnitRow.defaultCatOk {db}`, `CatRow.defaultUnitOk {db}`, `UnitRow.symPlain`, `CatRow.namePlain`
(tags defcat, defunit, symplain, catplain in harness/tablepreds.py).
Quantity-first forms on every kind of quantity (caption, derived, empty): `quantity_first_agrees`,
`created_object_holds_quantity`, `eq_needs_same_caption`, `obtained_quantity_carries_caption`; histories on a private
database: `history_state_is_its_registrations`, `history_answers_from_registry`, `default_category_after_registration`,
`default_category_after_unit_registration`, `forms_equal_in_every_reachable_state`.
Tie: every unit x every category of its quantity type x every form of the four classes, on the real
default database, against `Ctor.construct` / `createWithQuantity` / `Obj.eq` / `evalRepr`; the quantity-first forms
over ObtainQuantity(u, c, caption) / GetUnknownQuantity / Quantity(c, u, caption) / derived / empty quantities; and
histories (registrations, GetDefaultCategory questions, failed constructions, groups of forms) on private
UnitDatabase() objects against `Ctor.hstep` (one driver line per history)."""
import numpy

from common import close, err_kind, exact, qparse, qstr, sym, unsym

ID = "C19"
LEAN_MODULES = ["Barril.Props.C19"]
DRIVERS = ["drv_ctor"]
DRIVER_EXE = "drv_ctor"
RULE = ("default POSC database, read only. (A) every unit (thorough; a seeded third in quick) x every category of "
        "the unit's quantity type x {Scalar, Array, FixedArray, FractionScalar} x 2 sampled values (floats, ints, "
        "list/tuple/ndarray containers, FractionValue): all documented forms (v,u) (v,u,c) (c,v,u) ((v,u)) "
        "(ObtainQuantity(u,c),v) CreateWithQuantity keyword-call ObtainQuantity(u); values include Python ints that "
        "no double holds exactly (2**53+1, 10**23, ...), bools and numpy integers, sent with their float image; Array and "
        "FixedArray values include lists/tuples of tuples (n tuples of size k, n != k, n == k, ragged): result (error kind or class, "
        "category, unit, quantity type, value, dimension) and == against the first form in both directions; "
        "eval(repr) for the Scalar cases; (B) all categories x 4 classes: category only vs default value/unit forms "
        "and the default converted into other units; (C) a malformed stream (wrong orders, missing unit, unit of "
        "another type, unknown names, non-str arguments, legacy spellings, bad dimensions, quoting); (D) quantity-first "
        "forms X(q, v) / X.CreateWithQuantity(q, v) / (q, value=v) / CreateEmptyScalar / CreateEmptyArray over every kind "
        "of quantity: ObtainQuantity(u, c, caption) on sampled units, ObtainQuantity('<unknown>', 'Unknown', caption), "
        "units.GetUnknownQuantity(caption), ObtainQuantity(u, None, caption), derived quantities "
        "(ObtainQuantity(OrderedDict) with 1-3 entries, with and without caption), the empty quantity, the one-entry "
        "dict that is a simple quantity, next to the same quantity without / with another caption (== must tell them "
        "apart), bad captions; (E) histories on a private UnitDatabase(): registrations (AddUnitBase / AddUnit / "
        "AddCategory, accepted and rejected) interleaved with GetDefaultCategory questions, failed constructions and "
        "groups of all forms for a unit and a category: bounded-exhaustive over a 13-step alphabet after a 2- or "
        "3-call prefix to depth 3 (quick) / 4 (thorough) + random interleavings over the name pools of C14; (F) in the "
        "histories also build-and-operate steps (an Array/FixedArray built from a category, a quantity, nothing "
        "(CreateEmptyArray) or explicit list/tuple/ndarray values; then append / extend / item assignment / in-place "
        "ndarray scaling on the container GetValues() or .values handed out: object as built and as it is afterwards) "
        "followed by groups 'category alone vs (default value, default unit, category)': exhaustive over a 10-step "
        "alphabet to depth 2 (quick) / 3 (thorough) + random sequences; Array/FixedArray values also lists/tuples of "
        "LISTS and of lists and tuples mixed (every form must hold exactly the container it was given); every "
        "step's outcome is compared; distinct = distinct list of forms / history; non-trivial = at least two forms "
        "built an object (in a history: in a group that follows a registration that follows a question)")
EXHAUSTIVE = {"quick": False, "thorough": True}
ASSUMPTIONS = [
    "float(n) of a Python int (round to nearest even) is Python's: the harness sends n and float(n)",
    "float(s) of a str argument, repr/eval of a finite float and the parsing of a quoted literal without escapes "
    "are Python's, not modelled (the harness supplies float(s))",
    "memo tables (quantities_cache, _category_unit_valid) only replay results on a database that is not edited (C15)",
    "arguments are None, str, finite numbers, lists/tuples of those, 1-d ndarrays, FractionValue, Quantity (simple "
    "with or without unknown-unit caption, derived, empty); the third positional argument is None, a str or a number",
    "in a history the quantities are obtained through ObtainQuantity on the private database; the module constant "
    "units.UNKNOWN_QUANTITY (GetUnknownQuantity without caption) belongs to the default database and is only used there",
    "the converted category default (value None, unit given) and float(FractionValue) are compared within K*eps*M "
    "(also through eval(repr)), everything else exactly",
    "float() of a 1-d ndarray is a TypeError whatever its size (numpy >= 2.4); len()/tuple() of a str count bytes "
    "(unit symbols, category names and the generated string arguments are ASCII)",
    "== between an ndarray-valued and a tuples-valued Array (numpy broadcasts a scalar against a tuple) is not "
    "modelled and not generated: a case holds ndarrays or lists of tuples, never both",
    "default_unit of a registered category is never None (AddCategory falls back to the base unit)",
    "in-place operations on handed-out containers: append/extend/item assignment on lists (tuples and ndarrays: the "
    "error kind), item assignment with a float and multiplication by a power of two on float64 ndarrays (exact)",
    "a failing input found by the oracle is re-run in a new Python process and only reported when it fails there too "
    "(state left in the process by earlier cases is not blamed on a case that does not produce it)",
]
CLS = ("scalar", "array", "fixed", "fraction")


# ------------------------------------------------------------------------------------------ encoding
def S(s, with_float=True):
    f = None
    if with_float:
        try:
            x = float(s)
            if x == x and x not in (float("inf"), float("-inf")):
                f = qstr(exact(x))
        except (ValueError, TypeError):
            f = None
    return {"s": str(sym(s)), "f": f}


def N(x):
    """a number: float; int (with its float image "fl" when no double holds it exactly: the constructors store
    float(x), correctly rounded by Python); bool; numpy integer scalar"""
    from fractions import Fraction as F

    if isinstance(x, (bool, numpy.bool_)):
        return {"b": bool(x)}
    if isinstance(x, numpy.integer):
        return {"n": qstr(F(int(x))), "np": type(x).__name__}
    d = {"n": qstr(exact(x))}
    if isinstance(x, int):
        d["int"] = True
        if float(x) != x:
            d["fl"] = qstr(exact(float(x)))
    return d


# values that are not floats and do not all compare equal to their float image
SPECIAL = [2 ** 53 + 1, -(2 ** 53 + 1), 10 ** 23, -(2 ** 60) - 1, 123456789012345678, 2 ** 53, True, False,
           numpy.int64(7), numpy.int32(-3)]


def SEQ(kind, items):
    return {"seq": kind, "items": [A(i) for i in items]}


def ROWS(kind, rows, rk=None):
    """a list (kind "list") or tuple (kind "tuple") of tuples, e.g. [(100, 150), (50, 50)]; with rk (one bool per
    row: "this row is a list") a list/tuple of lists or of lists and tuples mixed, e.g. [[1.0, 2.0], [3.0, 4.5]]"""
    d = {"rows": kind, "items": [[A(i) for i in r] for r in rows]}
    if rk is not None and any(rk):
        d["rk"] = [bool(b) for b in rk]
    return d


def _row_kinds(j):
    return j.get("rk") or [False] * len(j["items"])


def FV(number, num, den):
    from fractions import Fraction as F

    return {"fv": [qstr(exact(number)), qstr(F(num, den))], "nd": [num, den]}


def OQ(u, c, *cap):
    """ObtainQuantity(u, c) / ObtainQuantity(u, c, caption)"""
    return {"oq": [A(u), A(c)] + [A(x) for x in cap[:1]]}


def DQ(items, cap=None):
    """ObtainQuantity(OrderedDict((category, [unit, exponent]) ...), None, caption): a derived quantity, the empty
    quantity (no items), or - one entry with exponent 1 - the simple quantity"""
    return {"dq": [[str(sym(c)), str(sym(u)), str(int(e))] for c, u, e in items], "cap": A(cap)}


def OQL(pairs, cats, cap=None, kinds=("list", "list", "tuple")):
    """ObtainQuantity([(unit, exponent), ...], [category, ...], caption): the unit a list/tuple of pairs (lists or
    tuples), the category a list/tuple of names (kinds = container kinds of unit list, pairs, category list)"""
    return {"oql": [[str(sym(u)), str(int(e))] for u, e in pairs], "cats": [str(sym(c)) for c in cats], "cap": A(cap),
            "kinds": list(kinds)}


def NQ(c, u, cap=None):
    """the legacy constructor called directly: Quantity(c, u, caption) (a private instance every time)"""
    return {"nq": [A(c), A(u), A(cap)]}


def UNK(cap=None):
    """units.GetUnknownQuantity(caption)"""
    return {"unk": A(cap)}


def A(x):
    """python atom -> json"""
    if x is None or isinstance(x, dict):
        return x
    if isinstance(x, str):
        return S(x)
    return N(x)


def form(cls, a1=None, a2=None, a3=None, k="ctor", dim=None, dimkw=None, kw=False, p=0):
    d = dict(k=k, cls=cls, a1=A(a1), a2=A(a2), a3=A(a3))
    if dim is not None:
        d["dim"] = dim
    if dimkw is not None:
        d["dimkw"] = dimkw
    if kw:
        d["kw"] = True
    if p:
        d["p"] = 1  # a form the property text names: all of these must build equal objects
    return d


def py_atom(j):
    if j is None:
        return None
    if "b" in j:
        return bool(j["b"])
    if "s" in j:
        return unsym(int(j["s"]))
    q = qparse(j["n"])
    if j.get("np"):
        return getattr(numpy, j["np"])(int(q))
    if j.get("int"):
        return int(q)
    return q.numerator / q.denominator


def py_arg(j):
    """json -> the python object (may raise: ObtainQuantity is evaluated here, as an argument expression)"""
    from barril.basic.fraction import FractionValue
    from barril.units import ObtainQuantity

    if j is None:
        return None
    if "rows" in j:
        rows = [(list if lk else tuple)(py_atom(i) for i in r) for r, lk in zip(j["items"], _row_kinds(j))]
        return rows if j["rows"] == "list" else tuple(rows)
    if "seq" in j:
        items = [py_atom(i) for i in j["items"]]
        if j["seq"] == "list":
            return items
        if j["seq"] == "tuple":
            return tuple(items)
        return numpy.array(items, dtype=numpy.float64)
    if "fv" in j:
        n = qparse(j["fv"][0])
        num, den = j["nd"]
        return FractionValue(n.numerator / n.denominator, (num, den))
    if "oq" in j:
        return ObtainQuantity(*(py_atom(x) for x in j["oq"]))
    if "dq" in j:
        from collections import OrderedDict

        return ObtainQuantity(OrderedDict((unsym(int(c)), [unsym(int(u)), int(e)]) for c, u, e in j["dq"]), None,
                              py_atom(j.get("cap")))
    if "unk" in j:
        from barril import units

        return units.GetUnknownQuantity(py_atom(j["unk"]))
    if "nq" in j:
        from barril.units import Quantity

        return Quantity(*(py_atom(x) for x in j["nq"]))
    if "oql" in j:
        box = {"list": list, "tuple": tuple}
        ku, kp, kc = j.get("kinds", ["list", "tuple", "list"])
        unit = box[ku](box[kp]((unsym(int(u)), int(e))) for u, e in j["oql"])
        return ObtainQuantity(unit, box[kc](unsym(int(c)) for c in j["cats"]), py_atom(j.get("cap")))
    return py_atom(j)


def canon_atom(x):
    if x is None:
        return None
    if isinstance(x, str):
        return {"s": str(sym(x))}
    if isinstance(x, tuple):
        return {"row": [canon_atom(i) for i in x]}
    if isinstance(x, list):
        return {"lrow": [canon_atom(i) for i in x]}
    if isinstance(x, (bool, numpy.bool_)):
        return {"other": repr(x)}
    if isinstance(x, (int, float, numpy.number)):
        x = x.item() if isinstance(x, numpy.number) else x
        return {"n": qstr(exact(x))}
    return {"other": type(x).__name__}


def canon_arg(x):
    from barril.basic.fraction import FractionValue
    from barril.units import Quantity

    if isinstance(x, list):
        return {"seq": "list", "items": [canon_atom(i) for i in x]}
    if isinstance(x, tuple):
        return {"seq": "tuple", "items": [canon_atom(i) for i in x]}
    if isinstance(x, numpy.ndarray):
        return {"seq": "nda", "items": [canon_atom(i) for i in x]}
    if isinstance(x, FractionValue):
        return {"fv": [qstr(exact(x.number)), qstr(x.fraction.x)]}
    if isinstance(x, Quantity):
        return {"qty": [str(sym(x.GetCategory())), str(sym(x.GetUnit()))]}
    return canon_atom(x)


def canon_obj(o):
    from barril.units import Array, FixedArray, FractionScalar, Scalar

    t = type(o)
    cls = {Scalar: "scalar", Array: "array", FixedArray: "fixed", FractionScalar: "fraction"}.get(t, t.__name__)
    q = o.GetQuantity()
    d = dict(cls=cls, cat=str(sym(q.GetCategory())), unit=str(sym(q.GetUnit())), qtype=str(sym(q.GetQuantityType())),
             dim=None)
    d.update(canon_quantity(q))
    v = o._value
    if cls == "scalar":
        d["val"] = {"n": qstr(exact(v))} if isinstance(v, float) else {"other": type(v).__name__}
    elif cls == "fraction":
        d["val"] = canon_arg(v)
    else:
        d["val"] = {"any": canon_arg(v)}
        if cls == "fixed":
            d["dim"] = str(o._dimension)
    return d


def canon_quantity(q):
    """the identity of a Quantity: caption and - for a derived one - the composing map (its category, unit and quantity
    type strings are C20's and are left out: "0")"""
    d = dict(cap=str(sym(q.GetUnknownCaption() or "")), comp=None)
    if q.IsDerived():
        d["comp"] = [[str(sym(c)), str(sym(ue[0])), str(int(ue[1]))] for c, ue in q.GetCategoryToUnitAndExps().items()]
        d.update(cat="0", unit="0", qtype="0")
    return d


def _classes():
    from barril.units import Array, FixedArray, FractionScalar, Scalar

    return dict(scalar=Scalar, array=Array, fixed=FixedArray, fraction=FractionScalar)


def build(f):
    """Run one form on the real code; returns the object (raises what the code raises)."""
    cls = _classes()[f["cls"]]
    a1 = py_arg(f.get("a1"))
    a2 = py_arg(f.get("a2"))
    a3 = py_atom(f.get("a3"))
    if f["k"] == "empty":
        # the class methods for objects without unit (FractionScalar has none: AttributeError)
        if f["cls"] in ("scalar", "fraction"):
            return cls.CreateEmptyScalar(value=a1) if f.get("kw") else cls.CreateEmptyScalar(a1)
        if f["cls"] == "array":
            return cls.CreateEmptyArray(values=a1) if f.get("kw") else cls.CreateEmptyArray(a1)
        return cls.CreateEmptyArray(f.get("dim", 0), values=a1) if f.get("kw") else cls.CreateEmptyArray(f.get("dim", 0), a1)
    if f["k"] == "cwq2":
        # the value positionally AND by keyword
        kwargs = {"value": a3}
        if f.get("dimkw") is not None:
            kwargs["dimension"] = f["dimkw"]
        return cls.CreateWithQuantity(a1, a2, **kwargs)
    if f["k"] == "cwq":
        kwargs = {}
        if f.get("dimkw") is not None:
            kwargs["dimension"] = f["dimkw"]
        if f.get("kw"):
            return cls.CreateWithQuantity(a1, value=a2, **kwargs)
        return cls.CreateWithQuantity(a1, a2, **kwargs)
    if f.get("kw"):
        vname = "value" if f["cls"] in ("scalar", "fraction") else "values"
        kwargs = {"category": a1, vname: a2, "unit": a3}
        if f["cls"] == "fixed":
            kwargs["dimension"] = f.get("dim", 0)
        return cls(**kwargs)
    args = [a1, a2, a3]
    while len(args) > 1 and args[-1] is None:
        args.pop()
    if f["cls"] == "fixed":
        args = [f.get("dim", 0)] + args
    return cls(*args)


def try_build(f):
    try:
        return build(f), None
    except Exception as e:  # noqa
        return None, err_kind(e)


def py_eq(a, b):
    try:
        r = (a == b)
        if isinstance(r, (bool, numpy.bool_)):
            return bool(r)
        return "nonbool"
    except Exception as e:  # noqa
        return err_kind(e)


# ------------------------------------------------------------------------------------------ generators
def setup(ctx):
    from barril.units.unit_database import UnitDatabase, _LEGACY_TO_CURRENT

    db = ctx.db = UnitDatabase.GetSingleton()
    ctx.units = [(qt, i.unit) for qt, infos in db.quantity_types.items() for i in infos]
    ctx.cats_of = {}
    for name, ci in db.categories_to_quantity_types.items():
        ctx.cats_of.setdefault(ci.quantity_type, []).append(name)
    ctx.cats = list(db.categories_to_quantity_types)
    ctx.legacy = list(_LEGACY_TO_CURRENT)
    ctx.notes["units"] = len(ctx.units)
    ctx.notes["categories"] = len(ctx.cats)
    ctx.notes["unit_category_pairs"] = sum(len(ctx.cats_of.get(qt, [])) for qt, _u in ctx.units)
    ctx.notes["form_results"] = {}
    ctx.notes["groups"] = {}


def _scalar_value(rng):
    return rng.choice([2.5, -1.0, 7, 0.0, 1e-7, 123456.789, rng.uniform(-1000, 1000),
                       10.0 ** rng.uniform(-9, 9) * rng.choice((1, -1)), rng.randint(-50, 50),
                       rng.choice(SPECIAL), rng.choice(SPECIAL)])


def _container(rng, n=None, nda=True):
    n = n or rng.randint(2, 4)
    items = [rng.choice([1.0, 2.5, -3.0, 0.0, rng.uniform(-100, 100), rng.randint(-9, 9), rng.choice(SPECIAL)])
             for _ in range(n)]
    kind = rng.choice(["list", "tuple", "nda"] if nda else ["list", "tuple", "list"])
    if kind == "nda":
        items = [float(i) for i in items]
    return SEQ(kind, items)


def _rows(rng, n=None, k=None, ragged=None, rowkind=None):
    """a list/tuple of n rows of size k: non-square (n != k), square, or ragged (sizes differ, possibly 0); the rows
    are tuples, lists, or lists and tuples mixed (rowkind)"""
    n = n or rng.randint(2, 4)
    if ragged is None:
        ragged = rng.random() < 0.25
    if k is None:
        k = rng.choice([n, n, n + 1, n + 2, max(1, n - 1), 1])
    sizes = [rng.randint(0, 4) for _ in range(n)] if ragged else [k] * n
    item = lambda: rng.choice([1.0, 2.5, -3.0, 0.0, rng.uniform(-100, 100), rng.randint(-9, 9), 100, 150, 50])  # noqa
    # the rows: tuples / lists / lists and tuples mixed
    if rowkind is None:
        rowkind = rng.choice(["tuples", "tuples", "lists", "lists", "mixed"])
    rk = [rowkind == "lists" or (rowkind == "mixed" and (i == 0 or rng.random() < 0.5)) for i in range(n)]
    return ROWS(rng.choice(["list", "list", "tuple"]), [[item() for _ in range(m)] for m in sizes], rk)


def _fraction_value(rng):
    if rng.random() < 0.5:
        return _scalar_value(rng)
    return FV(float(rng.randint(-20, 20)), rng.randint(0, 15), rng.choice([2, 4, 8, 16, 3]))


def unit_forms(cls, u, c, v, default):
    """All construction forms for unit u, category c and value v; p marks the forms the property names
    (only meaningful when c is the unit's default category)."""
    p = 1 if default else 0
    if cls == "scalar":
        return [form(cls, v, u, p=p), form(cls, v, u, c, p=p), form(cls, c, v, u, p=p),
                form(cls, SEQ("tuple", [v, u]), p=p), form(cls, OQ(u, c), v, p=p),
                form(cls, OQ(u, c), v, k="cwq", p=p), form(cls, c, v, u, kw=True, p=p),
                form(cls, OQ(u, None), v, p=p), form(cls, OQ(u, c), v, k="cwq", kw=True, p=p)]
    if cls == "fraction":
        return [form(cls, v, u, p=p), form(cls, v, u, c, p=p), form(cls, c, v, u, p=p),
                form(cls, OQ(u, c), v, p=p), form(cls, OQ(u, c), v, k="cwq", p=p),
                form(cls, c, v, u, kw=True, p=p), form(cls, OQ(u, None), v, p=p)]
    if cls == "array":
        return [form(cls, v, u, p=p), form(cls, v, u, c, p=p), form(cls, c, v, u, p=p),
                form(cls, OQ(u, c), v, p=p), form(cls, OQ(u, c), v, k="cwq", p=p),
                form(cls, c, v, u, kw=True, p=p), form(cls, OQ(u, c), v, k="cwq", kw=True, p=p)]
    d = len(v["items"])
    return [form(cls, v, u, dim=d, p=p), form(cls, v, u, c, dim=d, p=p), form(cls, c, v, u, dim=d, p=p),
            form(cls, OQ(u, c), v, dim=d, p=p), form(cls, OQ(u, c), v, k="cwq", p=p),
            form(cls, OQ(u, c), v, k="cwq", dimkw=d, p=p), form(cls, c, v, u, dim=d, kw=True, p=p)]


def _value_for(cls, rng):
    if cls == "scalar":
        return _scalar_value(rng)
    if cls == "fraction":
        return _fraction_value(rng)
    return _rows(rng) if rng.random() < 0.3 else _container(rng)


def _case(kind, forms, want_repr=False, **t):
    t["kind"] = kind
    return dict(op="forms", forms=forms, repr=bool(want_repr), _t=t)


def unit_cases(ctx, units, rng, nvals, classes=CLS, only_default=False):
    db = ctx.db
    for qt, u in units:
        dc = db.GetDefaultCategory(u)
        cats = ctx.cats_of.get(qt, [])
        if only_default:
            cats = [c for c in cats if c == dc] or ([dc] if dc else [])
        for c in cats:
            for cls in classes:
                for _ in range(nvals):
                    v = _value_for(cls, rng)
                    yield _case("unit", unit_forms(cls, u, c, v, c == dc), want_repr=(cls == "scalar"),
                                unit=u, category=c, default=(c == dc))


def special_cases(ctx, rng, nunits):
    """every SPECIAL value (ints no double holds exactly, 2**53, bools, numpy integers) in every documented form of
    the four classes, on a seeded sample of units with their default category"""
    db = ctx.db
    for _qt, u in rng.sample(ctx.units, min(nunits, len(ctx.units))):
        dc = db.GetDefaultCategory(u)
        if not dc:
            continue
        for v in SPECIAL:
            w = rng.choice(SPECIAL)
            kind = rng.choice(["list", "tuple", "nda"])
            box = SEQ(kind, [float(v), float(w), 1.0] if kind == "nda" else [v, w, 1.0])
            yield _case("unit", unit_forms("scalar", u, dc, v, True), want_repr=True, unit=u, category=dc, default=True)
            yield _case("unit", unit_forms("fraction", u, dc, v, True), unit=u, category=dc, default=True)
            yield _case("unit", unit_forms("array", u, dc, box, True), unit=u, category=dc, default=True)
            yield _case("unit", unit_forms("fixed", u, dc, box, True), unit=u, category=dc, default=True)


def rows_cases(ctx, rng, nunits):
    """Array and FixedArray from lists/tuples of tuples of every shape (n tuples of size k: n < k, n > k, n == k,
    ragged), in every documented form incl. CreateWithQuantity with and without dimension=, on a seeded sample of
    units with their default category"""
    db = ctx.db
    shapes = [(2, 3, False), (3, 2, False), (2, 2, False), (3, 3, False), (4, 1, False), (2, 5, False),
              (3, None, True), (2, None, True), (1, 1, False)]
    kinds = ["tuples", "lists", "mixed"]
    for iu, (_qt, u) in enumerate(rng.sample(ctx.units, min(nunits, len(ctx.units)))):
        dc = db.GetDefaultCategory(u)
        if not dc:
            continue
        for ish, (n, k, ragged) in enumerate(shapes):
            # every shape meets every kind of row (tuples, lists, mixed) as the units go by
            v = _rows(rng, n, k, ragged, rowkind=kinds[(iu + ish) % 3])
            for cls in ("array", "fixed"):
                # a FixedArray of dimension 1 does not exist: its forms are compared with the model (all raise), but
                # they are no documented forms the oracle could demand
                yield _case("unit", unit_forms(cls, u, dc, v, not (cls == "fixed" and n < 2)), unit=u, category=dc,
                            default=True)


def category_cases(ctx, rng, nconv=2):
    db = ctx.db
    for c in ctx.cats:
        ci = db.GetCategoryInfo(c)
        dv, du = ci.default_value, ci.default_unit
        yield _case("catonly", [form("scalar", c, p=1), form("scalar", dv, du, c, p=1), form("scalar", c, dv, du),
                                form("scalar", OQ(du, c)), form("scalar", c, kw=True)], want_repr=True, category=c)
        yield _case("catonly", [form("fraction", c, p=1), form("fraction", dv, du, c, p=1), form("fraction", c, dv, du),
                                form("fraction", OQ(du, c))], category=c)
        yield _case("catonly", [form("array", c, p=1), form("array", SEQ("list", []), du, c, p=1),
                                form("array", OQ(du, c)), form("array", c, SEQ("list", []), du)], category=c)
        d = rng.randint(2, 5)
        yield _case("catonly", [form("fixed", c, dim=d, p=1), form("fixed", SEQ("list", [0.0] * d), du, c, dim=d, p=1),
                                form("fixed", c, SEQ("list", [0.0] * d), du, dim=d), form("fixed", OQ(du, c), dim=d)],
                    category=c)
        # the default converted into other units of the type (value None, unit given)
        units = [i.unit for i in db.quantity_types[ci.quantity_type]]
        for u in [du] + [rng.choice(units) for _ in range(nconv)]:
            for cls in ("scalar", "fraction", "array", "fixed"):
                yield _case("catunit", [form(cls, c, None, u, dim=3), form(cls, None, u, c, dim=3),
                                        form(cls, c, None, u, dim=3, kw=True)], category=c, unit=u)


def _legacy_spellings(ctx):
    out = []
    for _qt, u in ctx.units:
        for legacy, current in ctx.legacy:
            if current in u:
                out.append(u.replace(current, legacy, 1))
    return sorted(set(out))


def malformed_cases(ctx, rng, n):
    db = ctx.db
    units = [u for _qt, u in ctx.units]
    legacy = _legacy_spellings(ctx)
    ctx.notes["legacy_spellings"] = len(legacy)

    def unit_of_other_type(c):
        qt = db.GetCategoryInfo(c).quantity_type
        while True:
            u = rng.choice(units)
            if db.GetQuantityType(u) != qt:
                return u

    def atom(c, u):
        return rng.choice([None, None, u, c, u, c, "nope", "no such category", "", "5", "2.5", " 7 ", "m'", 3.5, 2,
                           rng.choice(units), rng.choice(ctx.cats), rng.choice(legacy) if legacy else "x",
                           "1000ft3xyz", unit_of_other_type(c), "Unknown", "<unknown>", "unknown",
                           rng.choice(SPECIAL)])

    # one malformed case has either ndarrays or lists of tuples among its containers, never both: `==` between an
    # ndarray-valued and a tuples-valued Array broadcasts a numpy scalar against a tuple, which is not modelled
    mode = {"rows": False}

    def arg(c, u):
        r = rng.random()
        if r < 0.55:
            return atom(c, u)
        if r < 0.65:
            return SEQ(rng.choice(["tuple", "list"]), [atom(c, u) for _ in range(rng.choice([0, 1, 1, 2, 2, 2, 3]))])
        if r < 0.72:
            return SEQ("tuple", [_scalar_value(rng), rng.choice([u, u, "nope", None, 3])])
        if r < 0.76 or (r < 0.80 and not mode["rows"]):
            return _container(rng, rng.choice([1, 2, 3]), nda=not mode["rows"])
        if r < 0.80:
            # lists of tuples, among them the "composing units" shapes [(unit, exponent)]
            if rng.random() < 0.5:
                return ROWS(rng.choice(["list", "tuple"]),
                            [[rng.choice([u, u, c, None, 3, "nope"]), rng.choice([1, 1, 1.0, True, 2, -1, None, u])]
                             + ([7] if rng.random() < 0.2 else [])
                             for _ in range(rng.choice([1, 1, 1, 2]))])
            if rng.random() < 0.3:
                return ROWS(rng.choice(["list", "tuple"]), [[rng.choice([u, 1.0])] for _ in range(rng.choice([1, 2]))])
            return _rows(rng, rng.choice([1, 2, 3]))
        if r < 0.83:
            return SEQ("list" if mode["rows"] else "nda", [])
        if r < 0.90:
            return _fraction_value(rng)
        return OQ(rng.choice([u, u, u, None, 3.0, "nope", rng.choice(units)]), rng.choice([c, c, None, "nope", 2.0]))

    for i in range(n):
        mode["rows"] = rng.random() < 0.5
        qt, u = rng.choice(ctx.units)
        cats = ctx.cats_of.get(qt) or ctx.cats
        c = rng.choice(cats)
        forms = []
        for _ in range(3):
            cls = rng.choice(CLS)
            if rng.random() < 0.15:
                q = OQ(u, c) if rng.random() < 0.8 else arg(c, u)
                if not (isinstance(q, dict) and "oq" in q):
                    q = OQ(u, c)
                forms.append(form(cls, q, arg(c, u), k="cwq", dimkw=rng.choice([None, None, 0, 1, 2, 3, -1]),
                                  kw=rng.random() < 0.3))
            else:
                a3 = atom(c, u)
                forms.append(form(cls, arg(c, u), arg(c, u), a3, dim=rng.choice([3, 2, 2, 3, 1, 0, -2, 4]),
                                  kw=rng.random() < 0.2))
        yield _case("malformed", forms, want_repr=True)
    # systematic: the documented invalid form, wrong orders, legacy spellings with and without category
    for qt, u in rng.sample(ctx.units, min(len(ctx.units), max(50, n // 20))):
        cats = ctx.cats_of.get(qt) or ["length"]
        c = rng.choice(cats)
        v = _scalar_value(rng)
        w = unit_of_other_type(c)
        for cls in CLS:
            vv = v if cls in ("scalar", "fraction") else (_rows(rng, 3) if rng.random() < 0.3 else _container(rng, 3))
            yield _case("malformed", [
                form(cls, c, vv, dim=3), form(cls, u, vv, dim=3), form(cls, vv, c, u, dim=3), form(cls, u, c, v, dim=3),
                form(cls, vv, w, c, dim=3), form(cls, c, vv, w, dim=3), form(cls, vv, u, "nope", dim=3),
                form(cls, "nope", vv, u, dim=3), form(cls, OQ(u, c), vv, u, dim=3), form(cls, vv, dim=3),
                form(cls, vv, None, c, dim=3), form(cls, c, vv, 7, dim=3), form(cls, vv, 7, dim=3),
                form(cls, OQ(w, c), vv, dim=3), form(cls, OQ(u, c), dim=3), form(cls, OQ(u, c), k="cwq"),
                form(cls, vv, u, c, dim=1), form(cls, vv, u, c, dim=2), form(cls, OQ(u, c), vv, k="cwq", dimkw=2),
            ], want_repr=True)
    for lu in legacy:
        v = _scalar_value(rng)
        fixed = lu
        for a, b in ctx.legacy:
            fixed = fixed.replace(a, b)
        c = db.GetDefaultCategory(fixed)
        yield _case("legacy", [form("scalar", v, fixed), form("scalar", v, lu), form("scalar", v, lu, c),
                               form("scalar", c, v, lu), form("scalar", OQ(lu, c), v), form("scalar", OQ(lu, None), v),
                               form("scalar", SEQ("tuple", [v, lu])), form("fraction", v, lu), form("scalar", c, None, lu),
                               form("array", SEQ("list", [v]), lu), form("scalar", v, lu + "xyz")], want_repr=True)


def lit_cases(ctx, rng, n):
    alphabet = ["a", "m", "/", "'", "'", "\\", "\n", "\"", " ", "3", "%", "{", "}", "é", "\r", "\\n", "\\'", "q"]
    for _ in range(n):
        s = "".join(rng.choice(alphabet) for _ in range(rng.randint(1, 6)))
        if s.encode("utf8").endswith(b"\0"):
            continue
        yield dict(op="lit", s=str(sym(s)), _t=dict(kind="lit", text=s))
    for _qt, u in ctx.units:
        yield dict(op="lit", s=str(sym(u)), _t=dict(kind="lit", text=u))
    for c in ctx.cats:
        yield dict(op="lit", s=str(sym(c)), _t=dict(kind="lit", text=c))


# ------------------------------------------------------------------------------------------ quantity-first forms
CAPTIONS = ["Feeeet", "some caption", "flux units", "PSIA", "m", "a b", "x"]


def q_forms(cls, q, v, p=1):
    """the forms that are handed a Quantity: X(q, v), X.CreateWithQuantity(q, v), X.CreateWithQuantity(q, value=v)
    (FixedArray: dimension positional / inferred from len(values) / by keyword)"""
    if cls == "fixed":
        d = len(v["items"])
        return [form(cls, q, v, dim=d, p=p), form(cls, q, v, k="cwq", p=p), form(cls, q, v, k="cwq", dimkw=d, p=p),
                form(cls, q, v, k="cwq", kw=True, dimkw=d, p=p)]
    return [form(cls, q, v, p=p), form(cls, q, v, k="cwq", p=p), form(cls, q, v, k="cwq", kw=True, p=p)]


def _q_case(rng, cls, q, others=(), empty=None):
    """all quantity-first forms of class cls on the quantity expression q and one value; next to them (not named by
    the property: the model alone says what they give) the same forms on neighbouring quantities - the quantity
    without its caption, with another caption, ... - whose objects must compare unequal, and the value-less form"""
    v = _value_for(cls, rng)
    forms = q_forms(cls, q, v)
    if empty is not None:
        # Scalar.CreateEmptyScalar(v) / Array.CreateEmptyArray(values) / FixedArray.CreateEmptyArray(d, values): the
        # quantity-first forms on Quantity.CreateEmpty() (empty = 1; FractionScalar has no such method)
        d = len(v["items"]) if cls == "fixed" else None
        pe = 0 if cls == "fraction" else empty
        forms += [form(cls, v, k="empty", dim=d, p=pe), form(cls, v, k="empty", dim=d, kw=True, p=pe),
                  form(cls, None, k="empty", dim=d)]
    for o in others:
        forms += q_forms(cls, o, v, p=0)[:2]
    forms.append(form(cls, q, dim=len(v["items"]) if cls == "fixed" else None))
    return _case("qfirst", forms, want_repr=(cls == "scalar"), q=q)


def _derived_items(ctx, rng):
    """1-3 (category, unit, exponent) entries over distinct categories, each unit of its category's quantity type"""
    db = ctx.db
    items, seen = [], set()
    for _ in range(rng.choice([1, 2, 2, 3])):
        c = rng.choice(ctx.cats)
        if c in seen:
            continue
        seen.add(c)
        qt = db.GetCategoryInfo(c).quantity_type
        u = rng.choice([i.unit for i in db.quantity_types[qt]])
        items.append((c, u, rng.choice([1, 1, 2, -1, -2, 3])))
    return items


def quantity_cases(ctx, rng, nunits, nderived):
    """(D) every kind of Quantity in the quantity-first forms of the four classes"""
    db = ctx.db
    for qt, u in rng.sample(ctx.units, min(nunits, len(ctx.units))):
        cats = ctx.cats_of.get(qt, [])
        if not cats:
            continue
        c = rng.choice(cats)
        cap, cap2 = rng.sample(CAPTIONS, 2)
        for cls in CLS:
            # simple quantity with caption; its neighbours: no caption, another caption
            yield _q_case(rng, cls, OQ(u, c, cap), [OQ(u, c), OQ(u, c, cap2)])
            # category left to the unit's default, with caption
            yield _q_case(rng, cls, OQ(u, None, cap), [OQ(u, None), OQ(u, c, cap)])
        cls = rng.choice(CLS)
        # the legacy constructor called directly: a private Quantity instance, with and without caption
        yield _q_case(rng, cls, NQ(c, u, cap), [OQ(u, c, cap), NQ(c, u), NQ(c, None, cap)])
        yield _q_case(rng, rng.choice(CLS), NQ(c, u), [OQ(u, c), NQ(c, u, cap)])
        # the one-entry dict with exponent 1 is the simple quantity (with its caption)
        yield _q_case(rng, cls, DQ([(c, u, 1)], cap), [OQ(u, c, cap), OQ(u, c), DQ([(c, u, 2)], cap)])
        # unit given by the category (a unit that is no string), caption kept
        yield _q_case(rng, cls, OQ(None if rng.random() < 0.5 else 3.0, c, cap), [OQ(db.GetDefaultUnit(c), c, cap)])
    for cap in CAPTIONS + [None, ""]:
        other = rng.choice([x for x in CAPTIONS if x != cap])
        for cls in CLS:
            # the unknown quantity: ObtainQuantity('<unknown>', 'Unknown', caption) and units.GetUnknownQuantity(caption)
            if cap:
                yield _q_case(rng, cls, OQ("<unknown>", "Unknown", cap), [UNK(cap), UNK(None), OQ("<unknown>", "Unknown", other)])
            yield _q_case(rng, cls, UNK(cap), [OQ("<unknown>", "Unknown"), UNK(other), OQ("<unknown>", None, cap)])
    for cls in CLS:
        yield _q_case(rng, cls, DQ([]), [DQ([], "cap"), OQ("<unknown>", "Unknown")], empty=1)
        yield _q_case(rng, cls, DQ([], rng.choice(CAPTIONS)), [DQ([])], empty=0)
    for _ in range(nderived):
        items = _derived_items(ctx, rng)
        cap = rng.choice([None, None] + CAPTIONS)
        others = [DQ(list(reversed(items)), cap), DQ(items, "other" if cap is None else None)]
        if len(items) == 1:
            others.append(OQ(items[0][1], items[0][0], cap))
        yield _q_case(rng, rng.choice(CLS), DQ(items, cap), others)
        # the same composition asked for as a list of (unit, exponent) pairs with a list of categories
        kinds = [rng.choice(["list", "tuple"]) for _ in range(3)]
        pairs, cats = [(u, e) for _c, u, e in items], [c for c, _u, _e in items]
        yield _q_case(rng, rng.choice(CLS), OQL(pairs, cats, cap, kinds), [DQ(items, cap), DQ(items, "zz")])
        r = rng.random()
        if r < 0.5:
            # fewer / more / repeated categories (zip stops at the shorter list; a repeated key keeps its place), no
            # category at all, a single pair with exponent 1 (the simple case: unit[0][0] with category[0])
            cats2 = rng.choice([cats[:-1], cats + [rng.choice(ctx.cats)], [cats[0]] * len(cats), [], cats[::-1]])
            pairs2 = rng.choice([pairs, pairs[:1], [(pairs[0][0], 1)], [(pairs[0][0], 1)] + pairs[1:]])
            v = _value_for("scalar", rng)
            q2 = OQL(pairs2, cats2, cap, kinds)
            yield _case("qmalformed", [form("scalar", q2, v), form("scalar", q2, v, k="cwq"),
                                       form("array", q2, SEQ("list", [1.0, 2.0])),
                                       form("scalar", DQ(items, cap), v)], want_repr=True)
    # malformed: a caption that is no string, a unit the category rejects, a unit next to the quantity, a dict with an
    # unknown category or a unit of another quantity type
    units = [u for _qt, u in ctx.units]
    for _ in range(max(20, nderived // 2)):
        qt, u = rng.choice(ctx.units)
        c = rng.choice(ctx.cats_of.get(qt) or ctx.cats)
        cls = rng.choice(CLS)
        v = _value_for(cls, rng)
        d = len(v["items"]) if cls == "fixed" else None
        w = rng.choice(units)
        bad = rng.choice([OQ(u, c, 3.5), OQ(u, c, 2), OQ(w, c, "cap"), OQ(u, "nope", "cap"), OQ("nope", None, "cap"),
                          DQ([(c, w, 2)], "cap"), DQ([("nope", u, 2)]), DQ([(c, u, 2)], 7), DQ([(c, u, 1)], 7),
                          UNK(rng.choice(CAPTIONS)), NQ(c, None, "cap"), NQ(c, 3.0), NQ(None, u), NQ("nope", u), NQ(c, w),
                          NQ(c, u, 2), NQ(2, u, 2), NQ("nope", None)])
        yield _case("qmalformed", [form(cls, bad, v, dim=d), form(cls, bad, v, k="cwq"), form(cls, OQ(u, c, "cap"), v, u, dim=d),
                                   form(cls, OQ(u, c, "cap"), v, k="cwq", dimkw=rng.choice([None, 0, 1, 2, 3])),
                                   form(cls, v, OQ(u, c, "cap"), dim=d), form(cls, OQ(u, c, "cap"), OQ(u, c), dim=d),
                                   form(cls, bad, k="empty", dim=d),
                                   # the value twice: positionally and as value= ("Duplicated values parameter given")
                                   form(cls, OQ(u, c, "cap"), v, rng.choice([2.5, 2.5, None, "x", 7]), k="cwq2",
                                        dimkw=rng.choice([None, None, d, 2])),
                                   form(cls, OQ(u, c), None, rng.choice([2.5, None, 3]), k="cwq2", dimkw=rng.choice([None, d]))],
                    want_repr=True)


# ------------------------------------------------------------------------------------------ histories on a private database
class _Reg:
    """Registration calls as plain data, in the encoding of `_reg_common.enc_reg` / `apply_reg` (shared with the `Reg`
    engine of C14/C15).  The constructors, name pools and the random call generator are C19's own copies (taken from
    harness/props/C14.py) so that the history stream of C19 does not move when C14's generators are extended; every
    call they produce is one `Drivers/Ctor.lean` reads (kinds base / unit / cat with the keyword arguments below)."""
    TYPES = ["length", "time", "x"]
    SYMS = ["m", "cm", "lbmol", "s", "lbmole"]
    CATS = ["length", "depth", "c per d", "time"]

    @staticmethod
    def _base(qt, u):
        return dict(k="base", qt=qt, name="name of %s" % u, unit=u)

    @staticmethod
    def _unit(qt, u, fb=None, tb=None, dc=None):
        import _reg_common as rc

        f = rc.form_of(u) if isinstance(u, str) else ("x", "x")
        return dict(k="unit", qt=qt, name="n%s" % u, unit=u, fb=f[0] if fb is None else fb, tb=f[1] if tb is None else tb, dc=dc)

    @staticmethod
    def _cat(c, qt=None, **kw):
        if qt is not None:
            kw["quantity_type"] = qt
        return dict(k="cat", c=c, kw=kw)

    @staticmethod
    def _show_op(o):
        if o["k"] == "base":
            return "AddUnitBase(%r, %r, %r)" % (o["qt"], o["name"], o["unit"])
        if o["k"] == "unit":
            return "AddUnit(%r, %r, %r, %r, %r, default_category=%r)" % (o["qt"], o["name"], o["unit"], o["fb"], o["tb"], o.get("dc"))
        return "AddCategory(%r, %s)" % (o["c"], ", ".join("%s=%r" % kv for kv in sorted(o["kw"].items())))

    @staticmethod
    def _rnd_op(rng):
        import _reg_common as rc

        TYPES, SYMS, CATS, BAD, NO_X, SYNTAX = _Reg.TYPES, _Reg.SYMS, _Reg.CATS, rc.BAD, rc.NO_X, rc.SYNTAX
        _base, _unit, _cat = _Reg._base, _Reg._unit, _Reg._cat
        k = rng.choice(["base", "unit", "unit", "cat", "cat", "cat"])
        types = TYPES + ["Unknown"]
        syms = SYMS + ["Mcf", "1000ft3", "<unknown>", "degC", "km"]
        cats = CATS + ["Unknown", ""]
        if k == "base":
            qt = rng.choice(types) if rng.random() < 0.94 else rng.choice([None, BAD])
            u = rng.choice(syms) if rng.random() < 0.95 else rng.choice([None, BAD])
            return _base(qt, u)
        if k == "unit":
            qt = rng.choice(types) if rng.random() < 0.94 else rng.choice([None, BAD])
            u = rng.choice(syms) if rng.random() < 0.95 else rng.choice([None, BAD])
            op = _unit(qt, u, dc=rng.choice([None, None, "", "depth", "nope", "length"]))
            r = rng.random()
            if r < 0.06:
                op["fb"] = rng.choice([NO_X, SYNTAX])
            elif r < 0.12:
                op["tb"] = rng.choice([NO_X, SYNTAX])
            elif r < 0.15:
                op["fb"], op["tb"] = SYNTAX, NO_X
            return op
        kw = {}
        if rng.random() < 0.4:
            kw["valid_units"] = rng.sample(syms, rng.randint(0, 3))
        if rng.random() < 0.3:
            kw["default_unit"] = rng.choice(syms)
        if rng.random() < 0.35:
            kw["override"] = True
        if rng.random() < 0.3:
            kw["min_value"] = rng.choice([0.0, 5.0, -1.5])
        if rng.random() < 0.3:
            kw["max_value"] = rng.choice([1.0, 10.0, 5.0])
        if rng.random() < 0.15:
            kw["is_min_exclusive"] = True
        if rng.random() < 0.15:
            kw["is_max_exclusive"] = True
        if rng.random() < 0.3:
            kw["default_value"] = rng.choice([0.0, 1.0, 5.0, 20.0, 7.25])
        if rng.random() < 0.15:
            kw["caption"] = rng.choice(["Cap", ""])
        c = rng.choice(cats) if rng.random() < 0.96 else rng.choice([None, BAD])
        r = rng.random()
        if r < 0.25:
            kw["from_category"] = rng.choice(cats)
            return _cat(c, rng.choice(types) if rng.random() < 0.1 else None, **kw)
        if r < 0.3:
            return _cat(c, None, **kw)
        return _cat(c, rng.choice(types + ["nope", ""]) if rng.random() < 0.9 else rng.choice(cats), **kw)


def _reg():
    return _Reg


def H_defcat(u):
    return dict(q="defcat", u=u)


def H_group(cls, u, c, v=None, extra=()):
    """all forms of class cls for unit u and category c (the oracle asks a fresh database whether c is u's default
    category at that point of the history)"""
    return dict(q="forms", cls=cls, u=u, c=c, v=v, extra=list(extra))


def H_mut(f, muts):
    """build an object with the form f, then operate in place on the container it hands out"""
    return dict(q="mut", form=f, muts=list(muts))


def H_catonly(cls, c, du, d=3):
    """the object built from the category alone next to (default value, default unit du, category) - judged by the
    oracle when du IS the category's default unit at that point of the history"""
    return dict(q="catonly", cls=cls, c=c, du=du, d=d)


def M_append(x, via="GetValues"):
    return dict(m="append", x=A(x), via=via)


def M_extend(xs, via="GetValues"):
    return dict(m="extend", xs=[A(x) for x in xs], via=via)


def M_set(i, x, via="GetValues"):
    return dict(m="set", i=str(int(i)), x=A(x), via=via)


def M_scale(k, via="GetValues"):
    return dict(m="scale", k=qstr(exact(float(k))), via=via)


def _catonly_forms(g):
    cls, c, du, d = g["cls"], g["c"], g["du"], g["d"]
    if cls == "array":
        return [form("array", c, p=1), form("array", SEQ("list", []), du, c, p=1), form("array", OQ(du, c)),
                form("array", c, SEQ("list", []), du), form("array", c, kw=True)]
    return [form("fixed", c, dim=d, p=1), form("fixed", SEQ("list", [0.0] * d), du, c, dim=d, p=1),
            form("fixed", OQ(du, c), dim=d), form("fixed", c, SEQ("list", [0.0] * d), du, dim=d)]


def apply_mut(o, m):
    """one in-place operation on the container the object hands out (raises what Python raises)"""
    v = o.values if m.get("via") == "values" else o.GetValues()
    if m["m"] == "append":
        v.append(py_atom(m["x"]))
    elif m["m"] == "extend":
        v.extend([py_atom(x) for x in m["xs"]])
    elif m["m"] == "set":
        v[int(m["i"])] = py_atom(m["x"])
    elif m["m"] == "scale":
        q = qparse(m["k"])
        v *= q.numerator / q.denominator
    else:
        raise RuntimeError("unknown mutation")


def run_mut(st):
    o, e = try_build(st["form"])
    if e is not None:
        return dict(built=dict(err=e), after=None)
    built = dict(ok=canon_obj(o))
    for m in st["muts"]:
        try:
            apply_mut(o, m)
        except Exception as ex:  # noqa
            return dict(built=built, after=dict(err=err_kind(ex)))
    return dict(built=built, after=dict(ok=canon_obj(o)))


def _show_mut(m):
    acc = ".values" if m.get("via") == "values" else ".GetValues()"
    if m["m"] == "append":
        return "o%s.append(%r)" % (acc, _show_atom(m["x"]))
    if m["m"] == "extend":
        return "o%s.extend(%r)" % (acc, [_show_atom(x) for x in m["xs"]])
    if m["m"] == "set":
        return "o%s[%s] = %r" % (acc, m["i"], _show_atom(m["x"]))
    return "v = o%s; v *= %r" % (acc, float(qparse(m["k"])))


def _group_forms(g, rng):
    cls, u, c = g["cls"], g["u"], g["c"]
    v = g.get("v")
    if v is None:
        v = _value_for(cls, rng)
    forms = unit_forms(cls, u, c, v, True)
    if cls in ("array", "fixed"):
        forms.append(form(cls, OQ(u, None), v, dim=len(v["items"]) if cls == "fixed" else None, p=1))
    return forms + list(g.get("extra") or [])


def _hist(ops, rng, tag):
    """ops: registration dicts (C14), H_defcat, H_group -> one case; the whole history is one line for the driver"""
    import _reg_common as rc

    steps, tsteps = [], []
    for o in ops:
        if o.get("q") == "defcat":
            steps.append(dict(q="defcat", unit=str(sym(o["u"]))))
            tsteps.append(dict(q="defcat", u=o["u"]))
        elif o.get("q") == "forms":
            steps.append(dict(q="forms", forms=_group_forms(o, rng), repr=(o["cls"] == "scalar")))
            tsteps.append(dict(q="forms", u=o["u"], c=o["c"], cls=o["cls"]))
        elif o.get("q") == "catonly":
            steps.append(dict(q="forms", forms=_catonly_forms(o), repr=False))
            tsteps.append(dict(q="forms", catonly=True, c=o["c"], du=o["du"], cls=o["cls"]))
        elif o.get("q") == "mut":
            steps.append(dict(q="mut", form=o["form"], muts=o["muts"]))
            tsteps.append(dict(q="mut"))
        else:
            steps.append(rc.enc_reg(o))
            tsteps.append(o)
    return dict(op="hist", steps=steps, _t=dict(kind="hist", tag=tag, steps=tsteps))


def _h_prefixes():
    reg = _reg()
    p1 = [reg._base("length", "m"), reg._unit("length", "cm")]
    return p1, p1 + [reg._cat("length", "length")]


def _h_alphabet():
    reg = _reg()
    return [
        H_defcat("cm"),                                     # 0  a question about a unit whose category may not exist yet
        reg._cat("length", "length"),                       # 1  the category named after the quantity type
        H_group("scalar", "cm", "length"),                  # 2  all forms (fail before 1, build after)
        H_defcat("km"),                                     # 3  a question about a unit that may not exist yet
        reg._unit("length", "km"),                          # 4
        H_group("array", "km", "length"),                   # 5
        reg._cat("depth", "length"),                        # 6
        H_group("fraction", "m", "length"),                 # 7
        reg._unit("length", "lbmol", dc="depth"),           # 8  a unit with an explicit default category
        H_group("fixed", "lbmol", "depth"),                 # 9
        H_group("scalar", "lbmole", "depth"),               # 10 the legacy spelling of 8
        H_defcat("lbmol"),                                  # 11
        reg._cat("length", "length", override=True, valid_units=["m", "km"], default_unit="m"),   # 12 cm no longer accepted
    ]


def _h_exhaustive(rng, prefixes, depth, idxs=None):
    import itertools

    alpha = _h_alphabet()
    idxs = list(range(len(alpha))) if idxs is None else idxs
    for pre in prefixes:
        for d in range(1, depth + 1):
            for combo in itertools.product(idxs, repeat=d):
                if not any(alpha[i].get("q") == "forms" for i in combo):
                    continue    # no construction at all: C14/C15 look at those
                yield _hist(pre + [alpha[i] for i in combo], rng, "exhaustive")


def _h_mut_alphabet(rng):
    """build an object (mostly without values), operate on the container it handed out; build from the category alone"""
    x = lambda: rng.choice([1.0, 2.5, -3.0, 7, 100, 0.0])  # noqa
    reg = _reg()
    return [
        H_mut(form("array", "length"), [M_append(x())]),
        H_mut(form("array", OQ("m", "length")), [M_extend([x(), x()], via="values")]),
        H_mut(form("fixed", "length", dim=3), [M_set(0, 5.5), M_append(x())]),
        H_mut(form("array", SEQ("nda", [1.0, 2.0, 3.0]), "m"), [M_scale(2.0, via="values"), M_set(1, 5.0)]),
        H_mut(form("array", None, k="empty"), [M_append(x())]),
        H_mut(form("array", "depth"), [M_append(x()), M_set(0, 4.0, via="values"), M_set(3, x())]),
        H_catonly("array", "length", "m"),
        H_catonly("fixed", "length", "m", 3),
        H_catonly("array", "depth", "m"),
        reg._cat("depth", "length"),
    ]


def _h_mut_exhaustive(rng, depth):
    import itertools

    _p1, p2 = _h_prefixes()
    alpha = _h_mut_alphabet(rng)
    for d in range(2, depth + 1):
        for combo in itertools.product(range(len(alpha)), repeat=d):
            seen_mut = False
            ok = False
            for i in combo:
                q = alpha[i].get("q")
                if q == "mut":
                    seen_mut = True
                elif q == "catonly" and seen_mut:
                    ok = True
            if ok:      # a construction from the category alone after a container was operated on
                yield _hist(p2 + [alpha[i] for i in combo], rng, "mut-exhaustive")


def _rnd_mut(rng, u, c):
    """a random build-and-operate step for unit u and category c"""
    x = lambda: rng.choice([1.0, 2.5, -3.0, 7, 100, 0.0, rng.uniform(-50, 50)])  # noqa
    via = lambda: rng.choice(["GetValues", "values"])  # noqa
    r = rng.random()
    d = rng.choice([2, 3, 4])
    if r < 0.25:
        f = form("array", rng.choice([c, OQ(u, c), OQ(u, None)]))
    elif r < 0.4:
        f = form("fixed", rng.choice([c, OQ(u, c)]), dim=d)
    elif r < 0.5:
        f = rng.choice([form("array", None, k="empty"), form("fixed", None, k="empty", dim=d)])
    elif r < 0.7:
        n = rng.choice([0, 1, 3])
        f = form("array", SEQ(rng.choice(["list", "list", "tuple"]), [x() for _ in range(n)]), u, rng.choice([None, c]))
    elif r < 0.85:
        f = form("array", SEQ("nda", [float(x()) for _ in range(rng.choice([1, 3]))]), u)
    else:
        f = form("fixed", SEQ("list", [x() for _ in range(d)]), u, dim=d)
    nda = isinstance(f.get("a1"), dict) and f["a1"].get("seq") == "nda"
    muts = []
    for _ in range(rng.choice([1, 1, 2, 3])):
        r = rng.random()
        if nda:
            muts.append(M_scale(rng.choice([2.0, 0.5, -1.0, 4.0]), via()) if r < 0.5 else
                        M_set(rng.choice([0, 0, 1, 2, 5]), float(x()), via()) if r < 0.9 else M_append(x(), via()))
        elif r < 0.45:
            muts.append(M_append(x(), via()))
        elif r < 0.7:
            muts.append(M_extend([x() for _ in range(rng.choice([0, 1, 2]))], via()))
        else:
            muts.append(M_set(rng.choice([0, 0, 1, 2, 6]), x(), via()))
    return H_mut(f, muts)


def _h_mut_random(rng, n, maxlen):
    reg = _reg()
    _p1, p2 = _h_prefixes()
    for _ in range(n):
        ops = list(p2) + ([reg._cat("depth", "length")] if rng.random() < 0.5 else [])
        for _ in range(rng.randint(2, maxlen)):
            r = rng.random()
            u, c = rng.choice(["m", "cm", "m", "km"]), rng.choice(["length", "length", "depth"])
            if r < 0.45:
                ops.append(_rnd_mut(rng, u, c))
            elif r < 0.85:
                ops.append(H_catonly(rng.choice(["array", "array", "fixed"]), c, rng.choice(["m", "m", "m", "cm"]),
                                     rng.choice([2, 3, 4])))
            elif r < 0.92:
                ops.append(rng.choice([reg._cat("depth", "length"), reg._unit("length", "km"),
                                       reg._cat("length", "length", override=True, default_unit="cm"),
                                       reg._cat("depth", "length", override=True, default_unit="cm")]))
            else:
                ops.append(H_group(rng.choice(["array", "fixed"]), u, c))
        yield _hist(ops, rng, "mut-random")


def _h_random(rng, n, maxlen):
    reg = _reg()
    types = reg.TYPES
    syms = reg.SYMS + ["km", "Mcf", "1000ft3", "<unknown>"]
    cats = reg.CATS + ["Unknown", "x"]
    p1, p2 = _h_prefixes()
    rich = p1 + [reg._base("time", "s"), reg._unit("time", "min"), reg._base("x", "lbmol"),
                 reg._base("Unknown", "<unknown>"), reg._cat("Unknown", "Unknown")]
    for _ in range(n):
        r = rng.random()
        ops = list(p1) if r < 0.3 else [o for o in rich if rng.random() < 0.8] if r < 0.8 else []
        for _ in range(rng.randint(3, maxlen)):
            regd = [o["unit"] for o in ops if "q" not in o and o["k"] in ("base", "unit") and isinstance(o["unit"], str)]
            r = rng.random()
            u = rng.choice(regd) if regd and rng.random() < 0.7 else rng.choice(syms)
            if r < 0.2:
                if rng.random() < 0.3:
                    c = rng.choice(cats + types)
                    ops.append(_rnd_mut(rng, u, c) if rng.random() < 0.5 else
                               H_catonly(rng.choice(["array", "fixed"]), c, rng.choice(syms), rng.choice([2, 3])))
                else:
                    ops.append(H_defcat(u))
            elif r < 0.3 and ops:
                ops.append(dict(rng.choice(ops)))            # an earlier step again
            elif r < 0.45:
                # the category named after a quantity type, or a unit, arrives late
                qt = rng.choice(types)
                ops.append(rng.choice([reg._cat(qt, qt), reg._cat(rng.choice(cats), qt), reg._unit(qt, u),
                                       reg._unit(qt, u, dc=rng.choice(cats)), reg._base(qt, u)]))
            elif r < 0.6:
                ops.append(reg._rnd_op(rng))
            else:
                cls = rng.choice(CLS)
                # mostly the category named after the quantity type the unit was registered under
                own = [o["qt"] for o in ops if "q" not in o and o["k"] in ("base", "unit") and o["unit"] == u
                       and isinstance(o["qt"], str)]
                c = rng.choice(own) if own and rng.random() < 0.6 else rng.choice(cats + types)
                extra = []
                v = _value_for(cls, rng)     # one value for the whole group
                if rng.random() < 0.3:
                    cap = rng.choice(CAPTIONS)
                    extra = [f for f in q_forms(cls, OQ(u, rng.choice([c, None]), cap), v, p=0)[:2]]
                    if rng.random() < 0.3:
                        extra += q_forms(cls, rng.choice([DQ([]), DQ([(c, u, 2)], cap), UNK(cap)]), v, p=0)[:2]
                ops.append(H_group(cls, u, c, v=v, extra=extra))
        yield _hist(ops, rng, "random")


def history_cases(ctx, rng, tier):
    p1, p2 = _h_prefixes()
    core = [0, 1, 2, 3, 4, 5, 6, 10]
    if tier == "quick":
        yield from _h_exhaustive(rng, (p1, p2), 2)
        yield from _h_exhaustive(rng, (p1,), 3)
        yield from _h_exhaustive(rng, (p2,), 3, core)
        yield from _h_random(rng, 500, 14)
        yield from _h_mut_exhaustive(rng, 2)
        yield from _h_mut_random(rng, 150, 7)
    else:
        yield from _h_exhaustive(rng, (p1, p2), 3)
        yield from _h_exhaustive(rng, (p1,), 4, core)
        yield from _h_random(rng, 6000, 18)
        yield from _h_mut_exhaustive(rng, 3)
        yield from _h_mut_random(rng, 1500, 9)



def cases(ctx):
    rng = ctx.fresh_rng("C19corr")
    units = list(ctx.units)
    if ctx.tier == "quick":
        units = sorted(rng.sample(units, len(units) // 3), key=lambda t: ctx.units.index(t))
    yield from unit_cases(ctx, units, rng, 2)
    yield from special_cases(ctx, ctx.fresh_rng("C19special"), 25 if ctx.tier == "quick" else 150)
    yield from rows_cases(ctx, ctx.fresh_rng("C19rows"), 25 if ctx.tier == "quick" else 150)
    yield from category_cases(ctx, rng, 1 if ctx.tier == "quick" else 3)
    yield from malformed_cases(ctx, ctx.fresh_rng("C19bad"), 1500 if ctx.tier == "quick" else 15000)
    yield from lit_cases(ctx, ctx.fresh_rng("C19lit"), 300 if ctx.tier == "quick" else 3000)
    yield from quantity_cases(ctx, ctx.fresh_rng("C19qty"), *((80, 150) if ctx.tier == "quick" else (len(ctx.units), 3000)))
    yield from history_cases(ctx, ctx.fresh_rng("C19hist"), ctx.tier)
    for _qt, u in ctx.units:
        yield dict(op="defcat", unit=str(sym(u)), _t=dict(kind="defcat", unit=u))
    for u in _legacy_spellings(ctx) + ["nope", "", "1000ft3xyz"]:
        yield dict(op="defcat", unit=str(sym(u)), _t=dict(kind="defcat", unit=u))


def model_line(c):
    return {k: v for k, v in c.items() if k != "_t"}


def case_key(c):
    return model_line(c)


def _show_atom(j):
    if j is None:
        return None
    if isinstance(j, dict) and "b" in j:
        return bool(j["b"])
    if isinstance(j, dict) and "s" in j:
        return unsym(int(j["s"]))
    if isinstance(j, dict) and "n" in j:
        q = qparse(j["n"])
        if j.get("np"):
            return getattr(numpy, j["np"])(int(q))
        return int(q) if j.get("int") else q.numerator / q.denominator
    return j


def _show_arg(j):
    if isinstance(j, dict) and "rows" in j:
        rows = [(list if lk else tuple)(_show_atom(i) for i in r) for r, lk in zip(j["items"], _row_kinds(j))]
        return repr(rows if j["rows"] == "list" else tuple(rows))
    if isinstance(j, dict) and "seq" in j:
        return "%s%r" % (j["seq"], [_show_atom(i) for i in j["items"]])
    if isinstance(j, dict) and "fv" in j:
        return "FractionValue(%s, %s)" % (float(qparse(j["fv"][0])), tuple(j["nd"]))
    if isinstance(j, dict) and "oq" in j:
        return "ObtainQuantity(%s)" % ", ".join(repr(_show_atom(i)) for i in j["oq"])
    if isinstance(j, dict) and "dq" in j:
        items = ", ".join("(%r, [%r, %d])" % (unsym(int(c)), unsym(int(u)), int(e)) for c, u, e in j["dq"])
        cap = "" if j.get("cap") is None else ", None, %r" % (_show_atom(j["cap"]),)
        return "ObtainQuantity(OrderedDict([%s])%s)" % (items, cap)
    if isinstance(j, dict) and "unk" in j:
        return "GetUnknownQuantity(%s)" % ("" if j["unk"] is None else repr(_show_atom(j["unk"])))
    if isinstance(j, dict) and "nq" in j:
        return "Quantity(%s)" % ", ".join(repr(_show_atom(i)) for i in j["nq"])
    if isinstance(j, dict) and "oql" in j:
        box = {"list": list, "tuple": tuple}
        ku, kp, kc = j.get("kinds", ["list", "tuple", "list"])
        unit = box[ku](box[kp]((unsym(int(u)), int(e))) for u, e in j["oql"])
        cap = "" if j.get("cap") is None else ", %r" % (_show_atom(j["cap"]),)
        return "ObtainQuantity(%r, %r%s)" % (unit, box[kc](unsym(int(c)) for c in j["cats"]), cap)
    return repr(_show_atom(j))


def show_form(f):
    name = dict(scalar="Scalar", array="Array", fixed="FixedArray", fraction="FractionScalar")[f["cls"]]
    args = [_show_arg(f.get("a1")), _show_arg(f.get("a2")), _show_arg(f.get("a3"))]
    if f["k"] == "empty":
        meth = "CreateEmptyScalar" if f["cls"] in ("scalar", "fraction") else "CreateEmptyArray"
        kwn = "value=" if f["cls"] in ("scalar", "fraction") else "values="
        pre = "%s, " % f.get("dim", 0) if f["cls"] == "fixed" else ""
        return "%s.%s(%s%s%s)" % (name, meth, pre, kwn if f.get("kw") else "", args[0])
    if f["k"] == "cwq2":
        extra = ", dimension=%s" % f["dimkw"] if f.get("dimkw") is not None else ""
        return "%s.CreateWithQuantity(%s, %s, value=%s%s)" % (name, args[0], args[1], args[2], extra)
    if f["k"] == "cwq":
        extra = ", dimension=%s" % f["dimkw"] if f.get("dimkw") is not None else ""
        return "%s.CreateWithQuantity(%s, %s%s%s)" % (name, args[0], "value=" if f.get("kw") else "", args[1], extra)
    if f.get("kw"):
        vn = "value" if f["cls"] in ("scalar", "fraction") else "values"
        pre = "dimension=%s, " % f.get("dim", 0) if f["cls"] == "fixed" else ""
        return "%s(%scategory=%s, %s=%s, unit=%s)" % (name, pre, args[0], vn, args[1], args[2])
    while len(args) > 1 and args[-1] == "None":
        args.pop()
    if f["cls"] == "fixed":
        args = [str(f.get("dim", 0))] + args
    return "%s(%s)" % (name, ", ".join(args))


def _show_step(st, t):
    if st.get("q") == "defcat":
        return "GetDefaultCategory(%r)" % (t["u"],)
    if st.get("q") == "forms":
        return [show_form(f) for f in st["forms"]]
    if st.get("q") == "mut":
        return "o = %s; %s" % (show_form(st["form"]), "; ".join(_show_mut(m) for m in st["muts"]))
    return _reg()._show_op(t)


def show(c):
    if c["op"] == "forms":
        return dict(kind=c["_t"].get("kind"), forms=[show_form(f) for f in c["forms"]])
    if c["op"] == "hist":
        return dict(kind="hist", on="a private UnitDatabase()",
                    steps=[_show_step(st, t) for st, t in zip(c["steps"], c["_t"]["steps"])])
    return dict(c["_t"])


# ------------------------------------------------------------------------------------------ real code
def _py_repr_back(o):
    from barril.units import Scalar

    if type(o) is not Scalar or o.GetQuantity().IsDerived():
        return None
    import warnings

    try:
        with warnings.catch_warnings():
            warnings.simplefilter("ignore")
            back = eval(repr(o), {"Scalar": Scalar})
    except Exception as e:  # noqa
        return dict(back=dict(err=err_kind(e)), eq=None)
    try:
        cb = canon_obj(back)
    except Exception:  # noqa
        return dict(back=dict(err="other"), eq=None)
    return dict(back=dict(ok=cb), eq=py_eq(back, o))


def impl(c, ctx):
    t = c["_t"]
    g = ctx.notes["groups"]
    g[t["kind"]] = g.get(t["kind"], 0) + 1
    if c["op"] == "lit":
        import warnings

        s = t["text"]
        try:
            with warnings.catch_warnings():
                warnings.simplefilter("ignore")
                back = eval("'{}'".format(s), {})
            return dict(ok=bool(isinstance(back, str) and back == s))
        except Exception:  # noqa
            return dict(ok=False)
    if c["op"] == "defcat":
        try:
            r = ctx.db.GetDefaultCategory(t["unit"])
        except Exception as e:  # noqa
            return dict(err=err_kind(e))
        return dict(ok=None if r is None else str(sym(r)))
    if c["op"] == "hist":
        return dict(outs=run_history(c, ctx.notes["form_results"]))
    return run_forms(c, ctx.notes["form_results"])


def run_history(c, fr=None, upto=None, judge=None):
    """The history on a fresh private UnitDatabase() (the singleton while it runs): one outcome per step.
    `judge(i, db)` (oracle only) is called after step i, on the database as the history left it."""
    import _reg_common as rc
    from barril.units.unit_database import UnitDatabase

    fr = {} if fr is None else fr
    db = UnitDatabase()
    outs = []
    UnitDatabase.PushSingleton(db)
    try:
        for i, (st, t) in enumerate(zip(c["steps"], c["_t"]["steps"])):
            if upto is not None and i >= upto:
                break
            if st.get("q") == "defcat":
                try:
                    r = db.GetDefaultCategory(t["u"])
                    outs.append(dict(ok=None if r is None else str(sym(r))))
                except Exception as e:  # noqa
                    outs.append(dict(err=err_kind(e)))
            elif st.get("q") == "forms":
                outs.append(run_forms(st, fr))
            elif st.get("q") == "mut":
                outs.append(run_mut(st))
                k2 = "mutated:" + ("err" if outs[-1]["after"] is None else next(iter(outs[-1]["after"])))
                fr[k2] = fr.get(k2, 0) + 1
            else:
                outs.append(rc.apply_reg(db, t))
            if judge is not None:
                f = judge(i, db)
                if f:
                    return f
    finally:
        UnitDatabase.PopSingleton()
    return None if judge is not None else outs


def run_forms(c, fr):
    objs, res = [], []
    for f in c["forms"]:
        o, e = try_build(f)
        objs.append(o)
        if e is not None:
            res.append(dict(err=e))
            key = e
        else:
            try:
                res.append(dict(ok=canon_obj(o)))
                key = "ok"
            except Exception as ex:  # noqa
                res.append(dict(err="other", detail="canon: %r" % (ex,)))
                objs[-1] = None
                key = "other"
        k2 = "%s:%s" % (f["cls"] if f["k"] == "ctor" else f["cls"] + "." + f["k"], key)
        fr[k2] = fr.get(k2, 0) + 1
    ref = next((o for o in objs if o is not None), None)
    eqs = [None if o is None else [py_eq(o, ref), py_eq(ref, o)] for o in objs]
    reprs = []
    if c.get("repr"):
        reprs = [None if o is None else _py_repr_back(o) for o in objs]
    return dict(res=res, eq=eqs, repr=reprs)


def _val_agree(iv, mv, m):
    """impl value vs model value; m = magnitude when the value came out of a float conversion"""
    if m is None:
        return iv == mv
    if "n" in iv and "n" in mv:
        return close(float(qparse(iv["n"])), qparse(mv["n"]), m) and _is_float_of(iv)
    if "fv" in iv and "fv" in mv:
        return close(float(qparse(iv["fv"][0])), qparse(mv["fv"][0]), m) and iv["fv"][1] == mv["fv"][1]
    return iv == mv


def _is_float_of(_iv):
    return True


def _obj_agree(io, mo, m):
    for k in ("cls", "cat", "unit", "qtype", "dim", "cap", "comp"):
        if io.get(k) != mo.get(k):
            return "%s differs: impl=%r model=%r" % (k, io.get(k), mo.get(k))
    if not _val_agree(io["val"], mo["val"], m):
        return "value differs: impl=%r model=%r" % (io["val"], mo["val"])
    return None


def agree(c, io, mo, ctx):
    if c["op"] == "hist":
        import _reg_common as rc

        if len(io["outs"]) != len(mo.get("outs", [])):
            return "different number of steps"
        for i, (st, a, b) in enumerate(zip(c["steps"], io["outs"], mo["outs"])):
            if st.get("q") == "defcat":
                why = None if a == b else "impl=%r model=%r" % (a, b)
            elif st.get("q") == "forms":
                why = agree_forms(st, a, b)
            elif st.get("q") == "mut":
                why = agree_mut(a, b)
            else:
                why = rc.cmp_reg_out(a, b)
            if why:
                return "step %d (%s): %s" % (i, str(_show_step(st, c["_t"]["steps"][i]))[:200], why)
        return None
    return agree_forms(c, io, mo)


def agree_mut(a, b):
    """the object as built and as it is after the operations on its container: exactly (no float arithmetic but a
    multiplication by a power of two)"""
    for k in ("built", "after"):
        x, y = a.get(k), b.get(k)
        if (x is None) != (y is None):
            return "%s: one side has no object: impl=%r model=%r" % (k, x, y)
        if x is None:
            continue
        if ("err" in x) != ("err" in y) or ("err" in x and x["err"] != y["err"]):
            return "%s: impl=%r model=%r" % (k, x, y)
        if "ok" in x:
            why = _obj_agree(x["ok"], y["ok"], None)
            if why:
                return "%s: %s" % (k, why)
    return None


def agree_forms(c, io, mo):
    if c.get("op") in ("lit", "defcat"):
        if c["op"] == "lit" and mo.get("ok") is False and io.get("ok") is True:
            s = c["_t"]["text"]
            # a backslash that starts no escape sequence is kept by Python's parser: the model claims nothing there
            if "\\" in s and "'" not in s and "\n" not in s and "\r" not in s:
                return None
        return None if io == mo else "impl=%r model=%r" % (io, mo)
    if len(io["res"]) != len(mo["res"]):
        return "different number of results"
    conv = []
    for i, (a, b) in enumerate(zip(io["res"], mo["res"])):
        if ("err" in a) != ("err" in b):
            return "form %d (%s): one side fails: impl=%r model=%r" % (i, show_form(c["forms"][i]), a, b)
        if "err" in a:
            if a["err"] != b["err"]:
                return "form %d (%s): error kinds differ: impl=%s model=%s" % (i, show_form(c["forms"][i]), a["err"], b["err"])
            conv.append(False)
            continue
        m = qparse(b["M"]) if "M" in b else None
        conv.append(m is not None)
        why = _obj_agree(a["ok"], b["ok"], m)
        if why:
            return "form %d (%s): %s" % (i, show_form(c["forms"][i]), why)
    ref_conv = next((cv for cv, a in zip(conv, io["res"]) if "ok" in a), False)
    for i, (a, b) in enumerate(zip(io["eq"], mo["eq"])):
        if conv[i] or ref_conv:
            continue  # a value that went through float arithmetic: equality of near-ties is "don't care"
        if a != b:
            return "form %d (%s): == against the first built object: impl=%r model=%r" % (i, show_form(c["forms"][i]), a, b)
    if c.get("repr"):
        for i, (a, b) in enumerate(zip(io["repr"], mo["repr"])):
            if (a is None) != (b is None):
                return "form %d: repr applicability differs" % i
            if a is None:
                continue
            ab, bb = a["back"], b["back"]
            if ("err" in ab) != ("err" in bb):
                if "err" in bb and "\\" in repr((unsym(int(b["unit"])), unsym(int(b["cat"])))):
                    continue
                return "form %d (%s): eval(repr): impl=%r model=%r" % (i, show_form(c["forms"][i]), ab, bb)
            if "err" in ab:
                continue  # which exception a broken literal raises is not modelled
            # the printed value is the float of the object: where that float came out of float arithmetic
            # (res[i] carries M) it is compared with the exact model value within the bound, else exactly
            rm = mo["res"][i]
            why = _obj_agree(ab["ok"], bb["ok"], qparse(rm["M"]) if "M" in rm else None)
            if why:
                return "form %d: eval(repr) object: %s" % (i, why)
            if a["eq"] != b["eq"]:
                return "form %d: eval(repr(s)) == s: impl=%r model=%r" % (i, a["eq"], b["eq"])
    return None


def nontrivial(c, io):
    if c["op"] == "hist":
        # a group in which objects were built, after a registration that follows a question or a group
        asked = registered = False
        for st, o in zip(c["steps"], io["outs"]):
            if "q" in st:
                if registered and st["q"] == "forms" and sum(1 for r in o["res"] if "ok" in r) >= 2:
                    return True
                asked = True
            elif asked and "ok" in o:
                registered = True
        return False
    if c["op"] != "forms":
        return c["op"] == "defcat" and io.get("ok") is not None
    return sum(1 for r in io["res"] if "ok" in r) >= 2


# ------------------------------------------------------------------------------------------ the property, real code only
def oracle(c, ctx):
    """the property on the real code, in this process; a failure counts only when the case fails ON ITS OWN, i.e. also
    in a new Python process that runs nothing but this case (state that an earlier case left behind in the process -
    a class-level container, a cache - must not be blamed on a case that does not produce it)"""
    f = oracle_here(c, ctx.db)
    if f and not confirmed_in_fresh_process(c):
        return None
    return f


def confirmed_in_fresh_process(c):
    import json
    import os
    import subprocess
    import sys

    here = os.path.dirname(os.path.abspath(__file__))
    code = ("import sys, json; sys.path[:0] = [%r, %r]; import common; common.load_barril(); import C19; "
            "from barril.units.unit_database import UnitDatabase; c = json.load(sys.stdin); "
            "f = C19.oracle_here(c, UnitDatabase.GetSingleton()); print('@@C19@@' + ('FAILS' if f else 'HOLDS'))"
            % (os.path.dirname(here), here))
    try:
        r = subprocess.run([sys.executable, "-c", code], input=json.dumps(c, default=str), capture_output=True,
                           text=True, timeout=300, env=dict(os.environ))
    except Exception:  # noqa
        return True     # cannot tell: report rather than hide
    # anything but a clean "holds" (also a crash of the child) leaves the failure standing
    return "@@C19@@HOLDS" not in r.stdout


def oracle_here(c, db):
    if c.get("op") == "hist":
        return oracle_history(c)
    if c.get("op") != "forms":
        return None
    t = c["_t"]
    kind = t.get("kind")
    if kind == "unit":
        # the property speaks about the unit's default category
        if db.GetDefaultCategory(t["unit"]) != t["category"]:
            return None
    elif kind == "qfirst":
        return oracle_quantity(c)
    elif kind != "catonly":
        return None
    return judge_forms(c, kind)


def judge_forms(c, kind, where=None):
    """the forms the property names (p) build, and build equal objects (both directions of ==); eval(repr) of the
    Scalars with a simple quantity without caption gives an equal Scalar"""
    named = [f for f in c["forms"] if f.get("p")]
    if not named:
        return None
    extra = dict(where) if where else {}
    objs = []
    for f in named:
        try:
            objs.append(build(f))
        except Exception as e:  # noqa
            return dict(extra, clause="a documented construction form raises", form=show_form(f), error=repr(e)[:300])
    ref = objs[0]
    for f, o in zip(named[1:], objs[1:]):
        try:
            ok = bool(o == ref) and bool(ref == o) and not (o != ref)
        except Exception as e:  # noqa
            return dict(extra, clause="== between two construction forms raises", a=show_form(named[0]), b=show_form(f),
                        error=repr(e)[:300])
        if not ok:
            return dict(extra, clause="category-only object differs from (default value, default unit, category)"
                        if kind == "catonly" else "equivalent construction forms build different objects",
                        a=show_form(named[0]), b=show_form(f), got_a=repr(ref), got_b=repr(o),
                        quantity_a=_describe_q(ref), quantity_b=_describe_q(o))
    for f, o in zip(named, objs):
        # an Array / FixedArray holds exactly the container it was given (kind of the container and of its rows,
        # element types included)
        given = _given_values(f)
        if given is not None and not _same_container(given, o.GetValues()):
            return dict(extra, clause="the object does not hold the values it was given", form=show_form(f),
                        given=repr(given), holds=repr(o.GetValues()))
    if c.get("repr"):
        from barril.units import Scalar

        for f, o in zip(named, objs):
            q = o.GetQuantity()
            if type(o) is Scalar and not q.IsDerived() and not q.GetUnknownCaption():
                try:
                    back = eval(repr(o), {"Scalar": Scalar})
                    ok = bool(back == o)
                except Exception as e:  # noqa
                    return dict(extra, clause="eval(repr(scalar)) raises", form=show_form(f), repr=repr(o), error=repr(e)[:300])
                if not ok:
                    return dict(extra, clause="eval(repr(scalar)) != scalar", form=show_form(f), repr=repr(o), back=repr(back))
    return None


def _given_values(f):
    if f["cls"] not in ("array", "fixed"):
        return None
    for a in (f.get("a1"), f.get("a2")):
        if isinstance(a, dict) and ("rows" in a or "seq" in a):
            return py_arg(a)
    return None


def _same_container(a, b):
    if type(a) is not type(b):
        return False
    if isinstance(a, numpy.ndarray):
        return a.dtype == b.dtype and a.shape == b.shape and bool((a == b).all())
    if isinstance(a, (list, tuple)):
        return len(a) == len(b) and all(_same_container(x, y) for x, y in zip(a, b))
    return bool(a == b)


def _describe_q(o):
    try:
        q = o.GetQuantity()
        return dict(category=q.GetCategory(), unit=q.GetUnit(), caption=q.GetUnknownCaption(),
                    composing=[[k, v[0], int(v[1])] for k, v in q.GetCategoryToUnitAndExps().items()])
    except Exception as e:  # noqa
        return repr(e)[:100]


def oracle_quantity(c):
    """X(q, v), X.CreateWithQuantity(q, v) (and the CreateEmpty... methods on the empty quantity) build equal objects
    that hold exactly the quantity they were given (category, unit, composing map AND caption).  Judged only when the
    quantity expression itself evaluates."""
    try:
        q = py_arg(c["_t"]["q"])
    except Exception:  # noqa
        return None
    f = judge_forms(c, "qfirst")
    if f:
        return f
    for fm in [x for x in c["forms"] if x.get("p")]:
        got = build(fm).GetQuantity()
        same = (got == q) and (q == got) and not (got != q) and got.GetUnknownCaption() == q.GetUnknownCaption() \
            and got.GetUnit() == q.GetUnit() and got.GetCategory() == q.GetCategory() \
            and got.GetCategoryToUnitAndExps() == q.GetCategoryToUnitAndExps()
        if not same:
            return dict(clause="the object does not hold the quantity it was built from", form=show_form(fm),
                        given=dict(category=q.GetCategory(), unit=q.GetUnit(), caption=q.GetUnknownCaption()),
                        holds=dict(category=got.GetCategory(), unit=got.GetUnit(), caption=got.GetUnknownCaption()))
    return None


def fresh_default_category(c, upto, u):
    """GetDefaultCategory(u) on a NEW private database that received only the registrations of the first `upto`
    steps (no question was ever asked there); "<raises>" if that raises"""
    import _reg_common as rc
    from barril.units.unit_database import UnitDatabase

    db = UnitDatabase()
    UnitDatabase.PushSingleton(db)
    try:
        for st, t in list(zip(c["steps"], c["_t"]["steps"]))[:upto]:
            if "q" not in st:
                rc.apply_reg(db, t)
        try:
            return db.GetDefaultCategory(u)
        except Exception:  # noqa
            return "<raises>"
    finally:
        UnitDatabase.PopSingleton()


def oracle_history(c):
    """The property in every reachable state: at a group of forms for (u, c) the registrations made so far decide
    whether c is u's default category and whether Quantity(c, u) exists (asked of a new database that received the
    same registrations and nothing else); if so, all documented forms must build equal objects on the database the
    history produced, whatever was asked or tried before."""
    from barril.units import ObtainQuantity
    from barril.units.unit_database import UnitDatabase

    def judge(i, db):
        st, t = c["steps"][i], c["_t"]["steps"][i]
        if st.get("q") != "forms":
            return None
        if t.get("catonly"):
            return judge_catonly(c, i, st, t)
        dc = fresh_default_category(c, i, t["u"])
        if not dc or dc != t["c"]:
            return None
        fresh = UnitDatabase()
        import _reg_common as rc

        UnitDatabase.PushSingleton(fresh)
        try:
            for st2, t2 in list(zip(c["steps"], c["_t"]["steps"]))[:i]:
                if "q" not in st2:
                    rc.apply_reg(fresh, t2)
            try:
                ObtainQuantity(t["u"], t["c"])
            except Exception:  # noqa
                return None     # the category does not accept the unit: no object of (c, u) exists at all
        finally:
            UnitDatabase.PopSingleton()
        return judge_forms(st, "unit", where=dict(
            step=i, unit=t["u"], category=t["c"],
            history=_history_text(c, i)))

    return run_history(c, judge=judge)


def _history_text(c, i):
    return [_show_step(a, b) if a.get("q") != "forms" else "forms for (%r, %r)" % (b.get("u"), b["c"])
            for a, b in list(zip(c["steps"], c["_t"]["steps"]))[:i]]


def judge_catonly(c, i, st, t):
    """a group "category alone next to (default value, default unit, category)" at step i of a history: the property
    speaks when a NEW database that received the same registrations knows the category, names the unit the group uses
    as its default unit and builds Quantity(category, default unit); then the object built from the category alone
    must equal the explicit one whatever was built before and whatever the callers did with the containers the
    earlier objects handed out"""
    import _reg_common as rc
    from barril.units import ObtainQuantity
    from barril.units.unit_database import UnitDatabase

    fresh = UnitDatabase()
    UnitDatabase.PushSingleton(fresh)
    try:
        for st2, t2 in list(zip(c["steps"], c["_t"]["steps"]))[:i]:
            if "q" not in st2:
                rc.apply_reg(fresh, t2)
        try:
            if fresh.GetCategoryInfo(t["c"]).default_unit != t["du"]:
                return None
            ObtainQuantity(t["du"], t["c"])
        except Exception:  # noqa
            return None
    finally:
        UnitDatabase.PopSingleton()
    return judge_forms(st, "catonly", where=dict(step=i, category=t["c"], history=_history_text(c, i)))


def shrink(case, failure, ctx):
    """keep only the documented forms the failure is about (first the pair it names, then single forms)"""
    if case.get("op") == "hist":
        return shrink_history(case, failure)
    if case.get("op") != "forms":
        return case, failure
    named = [f for f in case["forms"] if f.get("p")]
    texts = {v for v in failure.values() if isinstance(v, str)}
    hit = [f for f in named if show_form(f) in texts]
    tries = []
    if hit:
        tries.append(([named[0]] if named[0] not in hit else []) + hit)
        tries.append(hit)
    tries.append(named)
    for forms in tries:
        c2 = dict(case, forms=forms)
        try:
            f2 = oracle(c2, ctx)
        except Exception:  # noqa
            f2 = None
        if f2:
            return c2, f2
    return case, failure


def shrink_history(case, failure):
    """cut the history after the failing group, then drop steps one at a time while the oracle still fails"""
    def sub(keep):
        return dict(case, steps=[case["steps"][i] for i in keep],
                    _t=dict(case["_t"], steps=[case["_t"]["steps"][i] for i in keep]))

    keep = list(range(len(case["steps"])))
    if isinstance(failure.get("step"), int):
        keep = keep[:failure["step"] + 1]
    best = failure
    # first the steps that build nothing a caller could operate on, judged in this process; then the build-and-operate
    # steps, each removal confirmed in a new process (what such a step leaves behind may already sit in this one)
    for mut_pass in (False, True):
        changed = True
        while changed:
            changed = False
            for i in list(keep[:-1]):
                if (case["steps"][i].get("q") == "mut") != mut_pass:
                    continue
                trial = [k for k in keep if k != i]
                try:
                    f2 = oracle_history(sub(trial))
                    if f2 and mut_pass and not confirmed_in_fresh_process(sub(trial)):
                        f2 = None
                except Exception:  # noqa
                    f2 = None
                if f2:
                    keep, best, changed = trial, f2, True
                    break
    if len(keep) < len(case["steps"]) and not confirmed_in_fresh_process(sub(keep)):
        return case, failure
    return sub(keep), best


def table_candidates(ctx):
    """units/categories on which a C19 row predicate is false (evaluated by the model's executable predicates)"""
    import engine
    from common import dumps

    res, _ = engine.run_driver(DRIVER_EXE, [dumps(dict(op="badrows"))])
    rng = ctx.fresh_rng("C19cand")
    out = []
    bad_units = {unsym(int(s)) for s in res[0].get("units", [])}
    bad_cats = {unsym(int(s)) for s in res[0].get("cats", [])}
    ctx.notes["rows_failing_row_predicate"] = dict(units=sorted(bad_units), categories=sorted(bad_cats))
    units = [t for t in ctx.units if t[1] in bad_units]
    out += list(unit_cases(ctx, units, rng, 1, only_default=True))
    for c in category_cases(ctx, rng, 0):
        if c["_t"].get("category") in bad_cats and c["_t"]["kind"] == "catonly":
            out.append(c)
    return out


def search(ctx):
    rng = ctx.fresh_rng("C19search")
    yield from special_cases(ctx, rng, 12)
    yield from rows_cases(ctx, rng, 12)
    yield from category_cases(ctx, rng, 0)
    yield from quantity_cases(ctx, rng, 30, 40)
    yield from history_cases(ctx, rng, "quick")
    yield from unit_cases(ctx, ctx.units, rng, 1, only_default=True)
    yield from unit_cases(ctx, ctx.units, rng, 2, only_default=True)


# ---------------------------------------------------------------------------------------------- known findings
CLASS_REPR_CAPTION = "scalar-repr: the quantity carries an unknown-unit caption"


def matches_known(entry, case, failure):
    """captioned quantities are outside the repr clause of the oracle (see `oracle`), so nothing the search can
    report belongs to this class"""
    return False


def replay_finding(entry, ctx):
    if (entry.get("matcher") or {}).get("class") != CLASS_REPR_CAPTION:
        return None
    import barril.units as units  # noqa: F401  (names used by eval)
    from barril.units import ObtainQuantity, Scalar  # noqa: F401

    rc = entry.get("replay_case") or {}
    s = Scalar(ObtainQuantity(rc.get("unit", "m"), rc.get("category", "length"), rc.get("caption", "some caption")),
               rc.get("value", 1.0))
    try:
        back = eval(repr(s), {"Scalar": Scalar})
    except Exception as e:  # noqa: BLE001
        return dict(clause="repr round trip", raised=repr(e))
    return dict(clause="repr round trip", repr=repr(s), **{"class": CLASS_REPR_CAPTION}) if back != s else None
