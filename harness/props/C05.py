"""C05 - dimensionally incompatible operations fail loudly and change nothing.

Decided by Barril/Props/C05.lean: error-decision theorems for conversion, creation, simple-operand
arithmetic and ordering (`orderQ_cross_type_error`: also for derived operands whose unit STRINGS
coincide), and `failed_step_invisible(_in_history)` / `failed_xstep_invisible(_in_history)`: in every
reachable session state every operation answers as on a fresh session over the current registry, so a
failure (indeed any operation) is invisible to all later ones; `reregistration_answers_as_fresh`: after
AddCategory/AddUnit everything answers as on a fresh session over the NEW registry; `sum_of_different_dimensions_fails` (corollary of C03's `add_sub_ok_dims`: a +/- b of simple or
derived operands with different dimension vectors fails) and `failed_sum_invisible(_in_history)`: the `sumq` step
(engine Alg's `opSame` inside the session) hands back the state it was given.  Tie: histories
of operations (registrations included) on private POSC databases, executed on the real code and on
the session model (`drv_fail`), compared step by step."""
import translate
from common import close, err_kind, exact, qparse, qstr, sym, unsym

ID = "C05"
LEAN_MODULES = ["Barril.Props.C05"]
DRIVERS = ["drv_fail"]
DRIVER_EXE = "drv_fail"
RULE = ("histories (<= 60 operations) over a private POSC database: every ordered pair of the 191 quantity "
        "types (one seeded unit and category each) through Convert / Scalar creation / + - / < <= > >= / "
        "Scalar.GetValue, Array.GetValues, FractionScalar.GetValue in a unit of the other type (also after a valid "
        "use of that unit, so that memoised conversion data is warm), derived quantities requested through "
        "Quantity.CreateDerived and ObtainQuantity(dict) with a foreign unit under a category, failing sums whose "
        "left operand is a hand-built or numpy-backed derived value (operand snapshots), legacy-"
        "spelled foreign units, the Unknown type, repeated failures (memo path) and interleaved valid operations "
        "on units and categories of one type; ordering (< <= > >=, sorted, min, max) of simple and derived values "
        "obtained from composing maps (dict, list form, unpickling, products), systematically every pair read off "
        "the table whose unit strings coincide across quantity types (unit s, exponent n with s+str(n) a unit of "
        "another type: (m/s)^2 against m/s2), in both orders, inside products, with equal-dimension controls; "
        "histories with registrations in the middle (AddCategory of a new or existing category, override=True to "
        "another quantity type, back again, AddUnit with a default category, rejected registrations) and the same "
        "creations before and after them: Scalar(v, unit), ObtainQuantity(unit), Scalar((v, unit)), the dict / "
        "list / pickle / CreateDerived forms, simple creation, checks, conversions, sums, orderings; sums and "
        "differences of DERIVED operands built by the real operators (products, quotients, powers, 1.0 / x) as "
        "Scalars and as Arrays over list / tuple / ndarray, in both orders: one quantity type repeated through two "
        "categories (length*depth against length), the exponent pairs (1,2) (-1,-2) (-1,-3) (2,3) (-2,-3) (1,-1) (2,-2) (-1,2) on the SAME "
        "unit and category (the pair (-1,-2) is forced into every such history), the same inside products with a "
        "second type, against simple and derived operands of another dimension, with equal-dimension controls, "
        "`==` of the two quantities, operand snapshots, interleaved with valid operations; distinct = "
        "distinct operation; non-trivial = the operation mixes "
        "two quantity types or follows a failed operation in its history")
EXHAUSTIVE = {"quick": False, "thorough": False}
ASSUMPTIONS = ["hand-built (CreateDerived) and numpy-squared derived operands of + and - (arithd, arithnd) stand in the model as simple operands of the same quantity types; the derived operands of the sumq stream reach the model (Alg.opSame inside the session) as the composing maps the real operators built, the model does not rebuild the products itself (that is engine Alg, C03/C04); Arrays are compared on their first element; object aliasing by C13",
               "float results within K*eps*M of the exact model (checked, not proved)",
               "the dimension vector of a value is its map quantity type -> exponent (the library's notion); an "
               "unpickled Quantity is the call of _ObtainReduced its __reduce__ writes",
               "ObtainQuantity(unit) for a unit string that a second legacy fixing would change again is outside "
               "the history-independence theorems (XOp.Tame; the model itself follows the code there)"]


def setup(ctx):
    from barril.units.unit_database import UnitDatabase

    db = UnitDatabase()
    UnitDatabase.FillUnitDatabaseWithPosc(db)
    ctx.db = db
    ctx.types = list(db.quantity_types)
    ctx.units = {qt: [i.unit for i in infos] for qt, infos in db.quantity_types.items()}
    cats = {}
    for name, ci in db.categories_to_quantity_types.items():
        cats.setdefault(ci.quantity_type, []).append(name)
    ctx.cats = cats
    from barril.units.unit_database import _LEGACY_TO_CURRENT

    leg = []
    for qt, us in ctx.units.items():
        for u in us:
            for old, new in _LEGACY_TO_CURRENT:
                if new in u:
                    s = u.replace(new, old)
                    if s not in db.unit_to_unit_info:
                        leg.append((qt, s))
    ctx.legacy = sorted(set(leg))
    # colliding unit strings, read off the table: a unit symbol s of one quantity type and an exponent n such that
    # s + str(n) is itself the symbol of a unit of ANOTHER quantity type (the unit string of a power is written by
    # appending the exponent: (m/s)^2 reads 'm/s2', the acceleration unit)
    col = []
    for qt in ctx.types:
        for u in ctx.units[qt]:
            for n in (2, 3, 4, 5, 6):
                info = db.unit_to_unit_info.get(u + str(n))
                if info is not None and info.quantity_type != qt and cats.get(qt) and cats.get(info.quantity_type):
                    col.append((qt, u, n, info.quantity_type, u + str(n)))
    # first the pairs whose dimensions differ beyond doubt: a quotient a/b with a numerator other than 1, where
    # (a/b)^n and a/b^n differ by a^(n-1)
    col.sort(key=lambda c: (not ("/" in c[1] and not c[1].startswith("1/")), c[1], c[2]))
    ctx.collide = col
    ctx.notes["colliding unit strings in the table"] = len(col)


def _cat(ctx, rng, qt):
    cs = ctx.cats.get(qt) or [qt]
    return rng.choice(cs)


def _mk_ops(ctx, rng, a_t, b_t, which):
    """operations mixing quantity types a_t and b_t"""
    ua, ub = rng.choice(ctx.units[a_t]), rng.choice(ctx.units[b_t])
    ca, cb = _cat(ctx, rng, a_t), _cat(ctx, rng, b_t)
    x, y = rng.choice([1.5, -2.0, 0.0, 37.25, 1e6]), rng.choice([2.5, -1.0, 100.0, 0.001])
    ops = []
    if "convert" in which:
        ops.append(dict(k="convert", cq=rng.choice([ca, a_t]), u=ua, v=ub, x=x))
    if "create" in which:
        ops.append(dict(k="create", c=ca, u=ub))
        if rng.random() < 0.5:
            # a derived quantity requested with a unit of another quantity type under one of its categories
            # (single entry with an exponent other than 1, or two entries)
            ops.append(dict(k="createderived", c=ca, u=ub, e=rng.choice([2, -1, 3, -2]),
                            extra=rng.random() < 0.4, c2=cb, u2=ub, how=rng.choice(["CreateDerived", "ObtainQuantity"])))
    if "arith" in which:
        ops.append(dict(k="arith", f=rng.choice(["add", "sub"]), c1=ca, u1=ua, c2=cb, u2=ub, x=x, y=y))
        if a_t != b_t and rng.random() < 0.5 and len(ctx.units[a_t]) > 1 and len(ctx.cats.get(a_t, [])) > 1:
            # left operand: a hand-built derived quantity holding two categories of ONE quantity type in two
            # different units (only obtainable through CreateDerived); the incompatible sum must fail and must
            # not rewrite the units of that operand's interned quantity
            c1b = rng.choice([c for c in ctx.cats[a_t] if c != ca])
            u1b = rng.choice([u for u in ctx.units[a_t] if u != ua])
            ops.append(dict(k="arithd", f=rng.choice(["add", "sub"]), c1=ca, u1=ua, c1b=c1b, u1b=u1b,
                            c2=cb, u2=ub, x=x, y=y))
        if a_t != b_t and rng.random() < 0.4 and len(ctx.units[a_t]) > 1:
            # numpy-valued Arrays of derived quantities: u1^2 (type a) against u1'^2 * u2^-1 (types a and b): the
            # units of type a get matched (scaling the values) BEFORE the dimension check fails
            u1b = rng.choice([u for u in ctx.units[a_t] if u != ua])
            ops.append(dict(k="arithnd", f=rng.choice(["add", "sub"]), c1=ca, u1=ua, u1b=u1b, c2=cb, u2=ub,
                            x=x, y=y, swap=rng.random() < 0.5))
    if "cmp" in which:
        ops.append(dict(k="cmp", f=rng.choice(["lt", "le", "gt", "ge"]), c1=ca, u1=ua, c2=cb, u2=ub, x=x, y=y))
    if "check" in which:
        ops.append(dict(k="check", c=ca, u=ub))
    if "getvalue" in which:
        # a value object asked for its value in a unit of another quantity type (object-level conversion routes)
        if rng.random() < 0.6:
            # first a VALID conversion into the very unit that is then asked of a value of another type
            ops.append(dict(k="getvalue", w=rng.choice(["scalar", "array", "fraction"]), c=cb,
                            u=rng.choice(ctx.units[b_t]), v=ub, x=y))
        ops.append(dict(k="getvalue", w=rng.choice(["scalar", "array", "fraction"]), c=ca, u=ua, v=ub, x=x))
    return ops


def _valid_ops(ctx, rng, qt):
    us = ctx.units[qt]
    ua, ub = rng.choice(us), rng.choice(us)
    ca, cb = _cat(ctx, rng, qt), _cat(ctx, rng, qt)
    x, y = rng.uniform(-50, 50), rng.uniform(0.5, 50)
    return [rng.choice([
        dict(k="convert", cq=ca, u=ua, v=ub, x=x),
        dict(k="create", c=ca, u=ub),
        dict(k="arith", f=rng.choice(["add", "sub"]), c1=ca, u1=ua, c2=cb, u2=ub, x=x, y=y),
        dict(k="cmp", f=rng.choice(["lt", "le", "gt", "ge"]), c1=ca, u1=ua, c2=cb, u2=ub, x=x, y=y + 1000 * abs(x) + 1000),
        dict(k="check", c=ca, u=ub),
        dict(k="getvalue", w=rng.choice(["scalar", "array", "fraction"]), c=ca, u=ua, v=ub, x=x),
        dict(k="getvalue", w=rng.choice(["scalar", "array", "fraction"]), c=ca, u=ua, v=ub, x=x),
    ])]


def _expand(op):
    """model-side reading of an operation: `getvalue` = create the object, then convert its value (that the
    object-level routes equal the database conversion is C02's theorem scalar_getValue_eq_convert)"""
    if op["k"] == "getvalue":
        return [dict(k="create", c=op["c"], u=op["u"]), dict(k="convert", cq=op["c"], u=op["u"], v=op["v"], x=op["x"])]
    if op["k"] == "createderived":
        # model stand-in: creating a value of category c with the foreign unit u is rejected
        return [dict(k="create", c=op["c"], u=op["u"])]
    if op["k"] == "arithnd":
        return [dict(k="arith", f=op["f"], c1=op["c1"], u1=op["u1"], c2=op["c2"], u2=op["u2"], x=op["x"], y=op["y"])]
    if op["k"] == "arithd":
        # the model's simple operands stand in for the derived left operand: dimensions differ, so the sum is
        # rejected (derived operands themselves are engine Alg's, C03)
        return [dict(k="arith", f=op["f"], c1=op["c1"], u1=op["u1"], c2=op["c2"], u2=op["u2"], x=op["x"], y=op["y"])]
    return [op]


def _ents(es):
    return [dict(c=str(sym(c)), u=str(sym(u)), e=int(e)) for c, u, e in es]


def _encq(q):
    return dict(es=_ents(q["es"]), cap=str(sym(q["cap"])), derived=bool(q["derived"]))


def _cmpq_model(op):
    """the comparison the real call performs, as the model's `cmpq` (operator, left, right, values):
    `sorted([X, Y])` and `min(X, Y)` evaluate `Y < X`, `max(X, Y)` evaluates `Y > X`"""
    via = op.get("via", "op")
    if via == "op":
        return op["f"], op["a"], op["b"], op["x"], op["y"]
    return ("gt" if via == "max" else "lt"), op["b"], op["a"], op["y"], op["x"]


def _encode(op):
    k = op["k"]
    if k == "createu":
        return dict(k="createu", u=str(sym(op["u"])))
    if k == "createdict":
        return dict(k="createdict", validate=op["how"] == "CreateDerived", es=_ents(op["es"]))
    if k == "cmpq":
        f, a, b, x, y = _cmpq_model(op)
        return dict(k="cmpq", f=f, a=_ents(a), b=_ents(b), x=qstr(exact(x)), y=qstr(exact(y)))
    if k == "sumq":
        return dict(k="sumq", f=op["f"], a=_encq(op["qa"]), b=_encq(op["qb"]), x=qstr(exact(op["x"])), y=qstr(exact(op["y"])))
    if k == "eqq":
        return dict(k="eqq", a=_encq(op["qa"]), b=_encq(op["qb"]))
    if k == "addcat":
        return dict(k="addcat", c=str(sym(op["c"])), qt=str(sym(op["qt"])), override=bool(op["override"]))
    if k == "addunit":
        return dict(k="addunit", qt=str(sym(op["qt"])), name=str(sym(op["name"])), u=str(sym(op["u"])),
                    dc=str(sym(op["dc"])) if op.get("dc") else "0", scale=qstr(exact(op["scale"])))
    o = dict(k=op["k"])
    for key, v in op.items():
        if key in ("c", "u", "v", "cq", "c1", "u1", "c2", "u2"):
            o[key] = str(sym(v))
        elif key in ("x", "y"):
            o[key] = qstr(exact(v))
        elif key == "f":
            o[key] = v
    return o


REG_KINDS = ("addcat", "addunit")


def _history(ops):
    enc, spans = [], []
    for o in ops:
        ex = _expand(o)
        spans.append((len(enc), len(ex)))
        enc += [_encode(e) for e in ex]
    return dict(op="history", ops=enc, _t=dict(ops=ops, spans=spans))


def _gen(ctx, salt, all_ops, n_random):
    rng = ctx.fresh_rng("C05" + salt)
    types = ctx.types
    kinds = ["convert", "create", "arith", "cmp", "check", "getvalue"]
    buf = []

    def flush():
        nonlocal buf
        if buf:
            h = _history(buf)
            buf = []
            return h
        return None

    i = 0
    for a_t in types:
        for b_t in types:
            if a_t == b_t:
                continue
            which = kinds if all_ops else [kinds[i % len(kinds)]]
            i += 1
            if rng.random() < 0.3:
                # a valid use of the other type first, so that whatever a route memoises for it is warm
                buf += [o for o in _valid_ops(ctx, rng, b_t) if o["k"] == "getvalue"]
            buf += _mk_ops(ctx, rng, a_t, b_t, which)
            if rng.random() < 0.15:
                buf += _valid_ops(ctx, rng, rng.choice([a_t, b_t]))
            if rng.random() < 0.05 and buf:
                buf.append(dict(buf[rng.randrange(len(buf))]))  # repeat an earlier operation (memo / cache path)
            if len(buf) >= 60:
                yield flush()
    h = flush()
    if h:
        yield h
    # legacy-spelled foreign units, Unknown type, unknown names
    for _ in range(n_random):
        ops = []
        for _ in range(rng.randint(3, 25)):
            r = rng.random()
            a_t = rng.choice(types)
            if r < 0.35 and ctx.legacy:
                b_t, leg = rng.choice(ctx.legacy)
                ua, ca = rng.choice(ctx.units[a_t]), _cat(ctx, rng, a_t)
                ops.append(rng.choice([
                    dict(k="convert", cq=ca, u=ua, v=leg, x=1.0),
                    dict(k="convert", cq=ca, u=leg, v=ua, x=1.0),
                    dict(k="create", c=ca, u=leg),
                    dict(k="cmp", f="lt", c1=ca, u1=ua, c2=_cat(ctx, rng, b_t), u2=leg, x=1.0, y=2.0),
                    dict(k="arith", f="add", c1=_cat(ctx, rng, b_t), u1=leg, c2=ca, u2=ua, x=1.0, y=2.0),
                ]))
            elif r < 0.5:
                ua = rng.choice(ctx.units[a_t])
                ops.append(rng.choice([
                    dict(k="convert", cq="Unknown", u=ua, v="<unknown>", x=3.0),
                    dict(k="convert", cq="Unknown", u="<unknown>", v=ua, x=3.0),
                    dict(k="create", c="Unknown", u=ua),
                    dict(k="create", c="no such category", u=ua),
                    dict(k="convert", cq="no such type", u=ua, v="m", x=1.0),
                    dict(k="create", c=_cat(ctx, rng, a_t), u="not a unit"),
                    dict(k="check", c="no such category", u=ua),
                ]))
            elif r < 0.8:
                ops += _valid_ops(ctx, rng, a_t)
            else:
                ops += _mk_ops(ctx, rng, a_t, rng.choice(types), [rng.choice(kinds)])
            if ops and rng.random() < 0.2:
                ops.append(dict(ops[rng.randrange(len(ops))]))
        yield _history(ops)


_CMPS = ["lt", "le", "gt", "ge"]


def _cmpq(rng, a, b, x, y, plain=False):
    via = "op" if plain else rng.choice(["op", "op", "op", "sorted", "max", "min"])
    build = "dict" if plain else rng.choice(["dict", "dict", "pow", "list", "pickle"])
    return dict(k="cmpq", f=rng.choice(_CMPS), a=a, b=b, x=x, y=y, via=via, build=build)


def _gen_collide(ctx, salt, pairs, n_random):
    """ordering of values of different dimensions, in particular of those whose unit STRINGS coincide"""
    rng = ctx.fresh_rng("C05c" + salt)
    buf = []
    for (s_t, s, n, t_t, t) in pairs:
        cs, ct = _cat(ctx, rng, s_t), _cat(ctx, rng, t_t)
        x, y = rng.choice([-5.0, -0.75, -300.0]), rng.choice([2.0, 9.8, 1000.0])
        power, plain = [(cs, s, n)], [(ct, t, 1)]
        buf.append(_cmpq(rng, power, plain, x, y))
        buf.append(_cmpq(rng, plain, power, y, x))
        r = rng.random()
        if r < 0.5:
            # controls: powers of equal dimension are ordered, so are plain values of the colliding unit
            buf.append(_cmpq(rng, power, [(cs, s, n)], x, y))
            buf.append(dict(k="cmp", f=rng.choice(_CMPS), c1=ct, u1=t, c2=ct, u2=rng.choice(ctx.units[t_t]), x=x, y=y))
        elif r < 0.7:
            # equal dimension written in another unit of the type (the conversion of a power is refused)
            buf.append(_cmpq(rng, power, [(cs, rng.choice(ctx.units[s_t]), n)], x, y))
        elif r < 0.85:
            # the colliding unit inside a product: different dimension vectors, different strings
            o_t = rng.choice(ctx.types)
            if ctx.cats.get(o_t):
                extra = (_cat(ctx, rng, o_t), rng.choice(ctx.units[o_t]), rng.choice([1, -1, 2]))
                buf.append(_cmpq(rng, power + [extra], plain + [extra], x, y))
                buf.append(_cmpq(rng, power + [extra], power, x, y))
        if len(buf) >= 50:
            yield _history(buf)
            buf = []
    if buf:
        yield _history(buf)
    typed = [t for t in ctx.types if ctx.cats.get(t)]
    for _ in range(n_random):
        ops = []
        for _ in range(rng.randint(4, 20)):
            def ents(k):
                out = []
                for _ in range(k):
                    t = rng.choice(typed)
                    out.append((_cat(ctx, rng, t), rng.choice(ctx.units[t]), rng.choice([1, 1, -1, 2, -2, 3])))
                # a category occurs once in a composing map
                seen, uniq = set(), []
                for e in out:
                    if e[0] not in seen:
                        seen.add(e[0])
                        uniq.append(e)
                return uniq
            a = ents(rng.choice([1, 1, 2, 3]))
            r = rng.random()
            if r < 0.3:
                b = list(a)                                  # the same quantity
            elif r < 0.45:
                b = list(reversed(a))                        # the same entries in another order
            elif r < 0.6:
                b = [(c, u, e + 1) for c, u, e in a]          # other exponents
            elif r < 0.75:
                # the same dimension vector written in other units (a conversion of a composed unit: refused)
                tys = {c: t for t in typed for c in ctx.cats[t]}
                b = [(c, rng.choice(ctx.units[tys[c]]), e) for c, u, e in a]
            else:
                b = ents(rng.choice([1, 2]))
            x, y = rng.choice([-5.0, -0.75, -300.0]), rng.choice([2.0, 9.8, 1000.0])
            op = _cmpq(rng, a, b, x, y)
            if op["build"] == "pow":
                op["build"] = "dict"
            ops.append(op)
            if rng.random() < 0.3:
                ops.append(dict(k="createdict", es=rng.choice([a, b]), how=rng.choice(["dict", "list", "pickle", "CreateDerived"])))
            if rng.random() < 0.2:
                ops += _valid_ops(ctx, rng, rng.choice(typed))
            if rng.random() < 0.25:
                # Scalar(v, unit) / ObtainQuantity(unit): the category comes from the unit (legacy spellings, names
                # that are no unit, units met before under another spelling)
                t = rng.choice(typed)
                u = rng.choice([rng.choice(ctx.units[t]), rng.choice(ctx.units[t]), "not a unit", "<unknown>"]
                               + ([rng.choice(ctx.legacy)[1]] * 2 if ctx.legacy else []))
                ops.append(dict(k="createu", u=u, how=rng.choice(["scalar", "obtain", "tuple"])))
                if rng.random() < 0.3:
                    ops.append(dict(ops[-1], how=rng.choice(["scalar", "obtain", "tuple"])))
        yield _history(ops)


# ------------------------------------------------------------- sums and differences of derived operands
# an operand is a small expression over the real operators:
#   ["L", value, unit, category]   Scalar(value, unit, category)   (Array: the container of value * m, m in _MULT)
#   ["N", value]                   a plain number (only as the numerator of a quotient: 1.0 / x)
#   ["*", a, b]  ["/", a, b]       the real operator
#   ["^", a, n]                    a ** n (Array has no __pow__: the loop of Scalar.__pow__)
_MULT = [1.0, 2.5]
_WAYS = ["scalar", "scalar", "list", "tuple", "ndarray"]
_EXP_PAIRS = [(1, 2), (-1, -2), (-1, -3), (2, 3), (-2, -3), (1, -1), (2, -2), (-1, 2)]


def _pw(t, n):
    """t to the power n through the public operators (n != 0)"""
    p = t if abs(n) == 1 else ["^", t, abs(n)]
    return p if n > 0 else ["/", ["N", 1.0], p]


def _build_tree(t, w):
    from barril.units import Array, Scalar

    k = t[0]
    if k == "L":
        if w == "scalar":
            return Scalar(t[1], t[2], t[3])
        vals = [t[1] * m for m in _MULT]
        if w == "ndarray":
            import numpy

            vals = numpy.array(vals)
        elif w == "tuple":
            vals = tuple(vals)
        return Array(vals, t[2], t[3])
    if k == "N":
        return t[1]
    if k == "^":
        a = _build_tree(t[1], w)
        if w == "scalar":
            return a ** t[2]
        r = a
        for _ in range(t[2] - 1):
            r = r * a
        return r
    a, b = _build_tree(t[1], w), _build_tree(t[2], w)
    return a * b if k == "*" else a / b


def _render_tree(t, w):
    k = t[0]
    if k == "L":
        if w == "scalar":
            return "Scalar(%r, %r, %r)" % (t[1], t[2], t[3])
        vals = [t[1] * m for m in _MULT]
        return "Array(%s, %r, %r)" % ("numpy.array(%r)" % vals if w == "ndarray" else repr(tuple(vals) if w == "tuple" else vals), t[2], t[3])
    if k == "N":
        return repr(t[1])
    if k == "^":
        return "(%s) ** %d" % (_render_tree(t[1], w), t[2])
    return "(%s %s %s)" % (_render_tree(t[1], w), k, _render_tree(t[2], w))


def _first(obj):
    return float(obj.value if hasattr(obj, "value") else obj.values[0])


def _canonq(q):
    return dict(es=[[c, ue[0], int(ue[1])] for c, ue in q.GetCategoryToUnitAndExps().items()],
                cap=q.GetUnknownCaption() or "", derived=bool(q.IsDerived()))


def _sum_op(ctx, kind, f, ta, tb, w):
    """a `sumq` / `eqq` operation: the operands are evaluated once with the real operators (on the private
    database), the composing maps they got and the first element's value go to the model.  None when an operand
    cannot even be built or is not finite."""
    import math
    from barril.units.unit_database import UnitDatabase

    UnitDatabase.PushSingleton(ctx.db)
    try:
        a, b = _build_tree(ta, w), _build_tree(tb, w)
        x, y = _first(a), _first(b)
        qa, qb = _canonq(a.GetQuantity()), _canonq(b.GetQuantity())
    except Exception:
        return None
    finally:
        UnitDatabase.PopSingleton()
    if not (math.isfinite(x) and math.isfinite(y)):
        return None
    op = dict(k=kind, ta=ta, tb=tb, w=w, qa=qa, qb=qb,
              expr="%s %s %s" % (_render_tree(ta, w), {"add": "+", "sub": "-", "eq": "=="}[f], _render_tree(tb, w)))
    if kind == "sumq":
        op.update(f=f, x=x, y=y)
    return op


def _gen_sums(ctx, salt, n_hist):
    """failing (and, as controls, valid) sums and differences of derived operands inside histories"""
    rng = ctx.fresh_rng("C05s" + salt)
    db = ctx.db
    typed = [t for t in ctx.types if ctx.cats.get(t) and t not in ("Unknown", "dimensionless")]
    multi = [t for t in typed if len(ctx.cats[t]) >= 2]
    # units without offset (valid controls compare values; a failing sum only its error)
    plain_units = {}
    for t in typed:
        base = db.GetBaseUnit(t)
        us = []
        for u in ctx.units[t]:
            try:
                if db.Convert(t, u, base, 0.0) == 0.0 and 1e-9 < abs(db.Convert(t, u, base, 1.0)) < 1e9:
                    us.append(u)
            except Exception:
                pass
        if us:
            plain_units[t] = us
    ptyped = [t for t in typed if t in plain_units]
    pmulti = [t for t in multi if t in plain_units]

    def val():
        return rng.choice([2.0, 3.0, 0.5, -1.5, 7.25, 300.0, 12.0])

    def leaf(t, u=None, c=None):
        return ["L", val(), u or rng.choice(plain_units[t]), c or _cat(ctx, rng, t)]

    def both(out, ta, tb, w=None, eq=False):
        """the sum or difference in both orders, in one way of holding the values"""
        w = w or rng.choice(_WAYS)
        for a, b in ((ta, tb), (tb, ta)):
            o = _sum_op(ctx, "sumq", rng.choice(["add", "sub"]), a, b, w)
            if o:
                out.append(o)
        if eq:
            o = _sum_op(ctx, "eqq", "eq", ta, tb, "scalar")
            if o:
                out.append(o)
                out.append(dict(o, ta=tb, tb=ta, qa=o["qb"], qb=o["qa"], expr="(swapped) " + o["expr"]))

    for _ in range(n_hist):
        ops = []
        # forced: the exponent pair (-1, -2) on the same unit and category, Scalars and one Array form
        t = rng.choice(ptyped)
        l0 = leaf(t)
        both(ops, _pw(l0, -1), _pw(l0, -2), "scalar", eq=True)
        both(ops, _pw(l0, -1), _pw(l0, -2), rng.choice(_WAYS[2:]))
        for _ in range(rng.randint(3, 7)):
            r = rng.random()
            if r < 0.3 and pmulti:
                # one quantity type twice through two different categories, against lower/higher powers of the type
                t = rng.choice(pmulti)
                c1, c2 = rng.sample(ctx.cats[t], 2)
                u1, u2 = rng.choice(plain_units[t]), rng.choice(plain_units[t])
                two = ["*", leaf(t, u1, c1), leaf(t, rng.choice([u1, u2]), c2)]
                o_t = rng.choice([x for x in ptyped if x != t])
                lo = leaf(o_t)
                both(ops, two, leaf(t, rng.choice([u1, u2]), rng.choice([c1, c2, _cat(ctx, rng, t)])), eq=True)
                both(ops, two, _pw(leaf(t, u1, c1), 3))
                both(ops, [rng.choice("*/"), two, lo], [rng.choice("*/"), leaf(t, u1, c1), lo])
                both(ops, two, _pw(leaf(t, u2, c1), 2), eq=rng.random() < 0.3)     # equal dimensions: a control
                both(ops, two, ["*", leaf(t, u2, c2), leaf(t, u1, c1)])            # equal dimensions, other order
            elif r < 0.65:
                # exponent pairs on the same unit and category
                t = rng.choice(ptyped)
                l1 = leaf(t)
                for (p, q) in rng.sample(_EXP_PAIRS, 3) + [(-1, -2)]:
                    both(ops, _pw(l1, p), _pw(l1, q), eq=rng.random() < 0.5)
                    if rng.random() < 0.4:
                        # the same pair inside a product with another type
                        o_t = rng.choice([x for x in ptyped if x != t])
                        lo, k = leaf(o_t), rng.choice("*/")
                        both(ops, [k, _pw(l1, p), lo], [k, _pw(l1, q), lo])
                p = rng.choice([2, -1, -2, 3])
                both(ops, _pw(l1, p), _pw(leaf(t), p))                             # equal dimensions, another unit
            else:
                # derived against simple / derived operands of another dimension
                t, o_t = rng.sample(ptyped, 2)
                d = [rng.choice("*/"), _pw(leaf(t), rng.choice([1, 2, -1])), _pw(leaf(o_t), rng.choice([1, 1, 2]))]
                both(ops, d, leaf(rng.choice([t, o_t])))
                both(ops, d, [rng.choice("*/"), leaf(t), leaf(rng.choice(ptyped))])
                both(ops, d, d, eq=True)                                            # the same quantity: a control
            if rng.random() < 0.5:
                ops += _valid_ops(ctx, rng, rng.choice(typed))
            if rng.random() < 0.3:
                ops += _mk_ops(ctx, rng, *rng.sample(typed, 2), [rng.choice(["arith", "cmp", "create"])])
            if ops and rng.random() < 0.2:
                ops.append(dict(ops[rng.randrange(len(ops))]))
        yield _history(ops[:60])


_NEW_CATS = ["stroke", "my category", "reach of arm", "Custom/1"]
_NEW_UNITS = ["smoot", "armlen", "u_x", "zork"]


def _gen_reg(ctx, salt, n_hist):
    """histories with registrations in the middle: a category moves to another quantity type (AddCategory with
    override=True), a unit is added; before and after it the same creations are requested"""
    rng = ctx.fresh_rng("C05r" + salt)
    typed = [t for t in ctx.types if ctx.cats.get(t) and len(ctx.units[t]) >= 2 and t not in ("Unknown", "dimensionless")]
    hows_d = ["dict", "list", "pickle", "CreateDerived"]
    for _ in range(n_hist):
        a_t = rng.choice(typed)
        b_t = rng.choice([t for t in typed if t != a_t])
        o_t = rng.choice([t for t in typed if t not in (a_t, b_t)])
        ops = []
        existing = rng.random() < 0.3
        if existing:
            # an existing category is re-registered (also the one named as the quantity type: the default category
            # of every unit of the type without one)
            C = a_t if (a_t in ctx.cats[a_t] and rng.random() < 0.5) else _cat(ctx, rng, a_t)
        else:
            C = rng.choice(_NEW_CATS)
            ops.append(dict(k="addcat", c=C, qt=a_t, override=rng.random() < 0.3))
        ua, ua2 = rng.sample(ctx.units[a_t], 2)
        ub, ub2 = rng.sample(ctx.units[b_t], 2)
        co, uo = _cat(ctx, rng, o_t), rng.choice(ctx.units[o_t])
        new_u = None
        if rng.random() < 0.7:
            new_u = rng.choice(_NEW_UNITS)
            scale = rng.choice([1.7018, 0.5, 12.0, 1000.0])
            addu = dict(k="addunit", qt=a_t, name=new_u + " name", u=new_u, dc=C if rng.random() < 0.8 else None, scale=scale)
            if rng.random() < 0.3:
                # asked for before it exists: the refusal must not be remembered
                ops.append(dict(k="create", c=C, u=new_u))
                ops.append(dict(k="createu", u=new_u, how="scalar"))
            ops.append(addu)
        x, y = rng.choice([-5.0, -0.75, -300.0]), rng.choice([2.0, 9.8, 1000.0])
        dent = [(C, ua, 1), (co, uo, -1)]
        dent2 = [(co, uo, 1), (C, new_u or ua2, rng.choice([2, -1]))]
        # default-category units of the category, when it is an existing one
        dflt = [u for u in ctx.units[a_t] if (ctx.db.unit_to_unit_info[u].default_category or a_t) == C]

        def uses():
            out = [dict(k="create", c=C, u=ua), dict(k="create", c=C, u=ua2),
                   dict(k="createdict", es=dent, how=rng.choice(hows_d)),
                   dict(k="createdict", es=dent, how=rng.choice(hows_d)),
                   dict(k="createdict", es=dent2, how=rng.choice(hows_d)),
                   dict(k="createdict", es=[(C, ua, 1)], how=rng.choice(hows_d)),
                   dict(k="check", c=C, u=ua),
                   dict(k="check", c=C, u=ub),
                   dict(k="create", c=C, u=ub),
                   dict(k="createdict", es=[(C, ub, 1), (co, uo, -1)], how=rng.choice(hows_d)),
                   dict(k="convert", cq=C, u=ua, v=ua2, x=x),
                   dict(k="convert", cq=C, u=ub, v=ub2, x=y),
                   _cmpq(rng, dent, dent, x, y, plain=True),
                   _cmpq(rng, dent, [(C, ub, 1), (co, uo, -1)], x, y, plain=True),
                   dict(k="cmp", f=rng.choice(_CMPS), c1=C, u1=ua, c2=_cat(ctx, rng, b_t), u2=ub, x=x, y=y),
                   dict(k="cmp", f=rng.choice(_CMPS), c1=C, u1=ub, c2=_cat(ctx, rng, b_t), u2=ub2, x=x, y=y),
                   dict(k="arith", f=rng.choice(["add", "sub"]), c1=C, u1=ua, c2=_cat(ctx, rng, a_t), u2=ua2, x=x, y=y),
                   dict(k="arith", f=rng.choice(["add", "sub"]), c1=C, u1=ub, c2=_cat(ctx, rng, b_t), u2=ub2, x=x, y=y),
                   dict(k="getvalue", w=rng.choice(["scalar", "array", "fraction"]), c=C, u=ua, v=ua2, x=x)]
            if new_u:
                out += [dict(k="createu", u=new_u, how=rng.choice(["scalar", "obtain", "tuple"])),
                        dict(k="createu", u=new_u, how=rng.choice(["scalar", "obtain", "tuple"])),
                        dict(k="create", c=C, u=new_u),
                        dict(k="convert", cq=rng.choice([C, a_t]), u=new_u, v=ua, x=x),
                        dict(k="createdict", es=[(C, new_u, 2)], how=rng.choice(hows_d))]
            for u in dflt[:3]:
                out.append(dict(k="createu", u=u, how=rng.choice(["scalar", "obtain", "tuple"])))
            out.append(dict(k="createu", u=rng.choice(ctx.units[a_t]), how=rng.choice(["scalar", "obtain", "tuple"])))
            rng.shuffle(out)
            return out[:rng.randint(6, len(out))]

        def bad_regs():
            return [rng.choice([
                dict(k="addcat", c=C, qt=b_t, override=False),             # registered already
                dict(k="addcat", c=rng.choice(_NEW_CATS), qt="no such type", override=rng.random() < 0.5),
                dict(k="addunit", qt=b_t, name="again", u=rng.choice([ua, ub, uo]), dc=None, scale=2.0),
                dict(k="addunit", qt=a_t, name="again", u=new_u or ua, dc=C, scale=2.0),
            ])]

        ops += uses()
        if rng.random() < 0.5:
            ops += bad_regs() + uses()[:4]
        ops.append(dict(k="addcat", c=C, qt=b_t, override=True))
        ops += uses()
        r = rng.random()
        if r < 0.3:
            ops += bad_regs() + uses()[:5]
        elif r < 0.6:
            ops.append(dict(k="addcat", c=C, qt=rng.choice([a_t, o_t]), override=True))   # and moves again
            ops += uses()
        elif r < 0.75 and new_u:
            ops.append(dict(k="addunit", qt=b_t, name="late", u=new_u + "2", dc=C, scale=3.0))
            ops += [dict(k="createu", u=new_u + "2", how="scalar"), dict(k="create", c=C, u=new_u + "2")] + uses()[:5]
        yield _history(ops)


def cases(ctx):
    col = ctx.collide
    if ctx.tier == "quick":
        yield from _gen(ctx, "q", False, 300)
        rng = ctx.fresh_rng("C05pick")
        rest = col[12:]
        yield from _gen_collide(ctx, "q", col[:12] + (rng.sample(rest, min(36, len(rest)))), 60)
        yield from _gen_reg(ctx, "q", 120)
        yield from _gen_sums(ctx, "q", 60)
    else:
        yield from _gen(ctx, "t", True, 3000)
        # two more passes over all ordered type pairs with other seeded units, categories and values
        yield from _gen(ctx, "t2", True, 0)
        yield from _gen(ctx, "t3", True, 0)
        yield from _gen_collide(ctx, "t", col, 600)
        yield from _gen_collide(ctx, "t2", col, 0)
        yield from _gen_reg(ctx, "t", 1500)
        yield from _gen_sums(ctx, "t", 800)


def model_line(c):
    return {k: v for k, v in c.items() if k != "_t"}


def show(c):
    return c["_t"]["ops"][:6]


class _PickledQuantity:
    """pickles to exactly what a `Quantity` with these composing entries pickles to: a call of
    `_ObtainReduced` with the state list of `Quantity.__reduce__` (entries, then the caption `None`)"""

    def __init__(self, es):
        self.es = es

    def __reduce__(self):
        from barril.units._quantity import _ObtainReduced

        return _ObtainReduced, ([(c, [u, e]) for c, u, e in self.es] + [None],)


def _obtain_entries(es, how):
    """a quantity from its composing entries [(category, unit, exponent)] through one of the public forms"""
    import pickle
    from collections import OrderedDict
    from barril.units import ObtainQuantity
    from barril.units._quantity import Quantity

    if how == "CreateDerived":
        return Quantity.CreateDerived(OrderedDict((c, [u, e]) for c, u, e in es))
    if how == "list":
        return ObtainQuantity([(u, e) for _c, u, e in es], [c for c, _u, _e in es])
    if how == "pickle":
        return pickle.loads(pickle.dumps(_PickledQuantity(es)))
    return ObtainQuantity(OrderedDict((c, [u, e]) for c, u, e in es))


def _value_of(es, x, build):
    """a Scalar of value x whose quantity has the composing entries es; `pow`: a single entry (c, u, n), n >= 2,
    as the product Scalar(x, u, c) * Scalar(1, u, c) * ... (n factors)"""
    from barril.units import Scalar

    if build == "pow" and len(es) == 1 and es[0][2] >= 2:
        c, u, n = es[0]
        r = Scalar(x, u, c)
        for _ in range(n - 1):
            r = r * Scalar(1.0, u, c)
        return r
    return Scalar.CreateWithQuantity(_obtain_entries(es, build if build in ("list", "pickle") else "dict"), x)


def _run_op(db, op):
    """One operation on the real code (the private database is the singleton at this point)."""
    from barril.units import Scalar

    k = op["k"]
    try:
        if k == "create":
            s = Scalar(1.0, op["u"], op["c"])
            return dict(ok=dict(cat=s.GetCategory(), unit=s.GetUnit()))
        if k == "check":
            db.CheckCategoryUnit(op["c"], op["u"])
            return dict(ok=None)
        if k == "convert":
            r = db.Convert(op["cq"], op["u"], op["v"], op["x"])
            return dict(ok=dict(x=float(r).hex()))
        if k == "getvalue":
            from barril.units import Array, FractionScalar
            from barril.basic.fraction import FractionValue

            if op["w"] == "scalar":
                r = Scalar(op["x"], op["u"], op["c"]).GetValue(op["v"])
            elif op["w"] == "array":
                r = Array([op["x"]], op["u"], op["c"]).GetValues(op["v"])[0]
            else:
                r = float(FractionScalar(op["c"], FractionValue(op["x"]), op["u"]).GetValue(op["v"]))
            return dict(ok=dict(x=float(r).hex()))
        if k == "createderived":
            from collections import OrderedDict
            from barril.units import ObtainQuantity
            from barril.units._quantity import Quantity

            items = [(op["c"], [op["u"], op["e"]])]
            if op["extra"] and op["c2"] != op["c"]:
                items.append((op["c2"], [op["u2"], 1]))
            m = OrderedDict(items)
            # both forms run the same category/unit check (ObtainQuantity(dict) since fix 42c424f)
            q = Quantity.CreateDerived(m) if op["how"] == "CreateDerived" else ObtainQuantity(m)
            s0 = Scalar.CreateWithQuantity(q, 1.0)
            return dict(ok=dict(cat=s0.GetCategory(), unit=s0.GetUnit()))
        if k == "arithnd":
            import numpy
            from barril.units import Array

            def sq(unit, cat, v):
                a0 = Array(numpy.array([v, 2 * v + 1.0]), unit, cat)
                return a0 * a0

            left = sq(op["u1"], op["c1"], op["x"])
            right = sq(op["u1b"], op["c1"], op["y"]) / Array(numpy.array([2.0, 4.0]), op["u2"], op["c2"])
            if op["swap"]:
                left, right = right, left
            keep = [(o, o.GetValues().copy(), o.GetUnit()) for o in (left, right)]
            try:
                r = left + right if op["f"] == "add" else left - right
                out = dict(ok=dict(cat=r.GetCategory(), unit=r.GetUnit(), x=float(r.GetValues()[0]).hex()))
            except Exception as e:
                out = dict(err=err_kind(e))
            for o, vals, unit in keep:
                if o.GetUnit() != unit or not numpy.array_equal(o.GetValues(), vals):
                    return dict(err="other", detail="an operand changed: %r -> %r [%s]" % (list(vals), list(o.GetValues()), unit))
            return out
        if k == "arithd":
            from collections import OrderedDict
            from barril.units._quantity import Quantity

            q = Quantity.CreateDerived(OrderedDict([(op["c1"], [op["u1"], 1]), (op["c1b"], [op["u1b"], 1])]))
            a = Scalar.CreateWithQuantity(q, op["x"])
            b = Scalar(op["y"], op["u2"], op["c2"])
            before = (a.GetValue(), a.GetUnit(), [(c, list(ue)) for c, ue in q.GetCategoryToUnitAndExps().items()],
                      q.GetComposingUnits(), hash(q))
            try:
                r = a + b if op["f"] == "add" else a - b
                out = dict(ok=dict(cat=r.GetCategory(), unit=r.GetUnit(), x=float(r.GetValue()).hex()))
            except Exception as e:
                out = dict(err=err_kind(e))
            after = (a.GetValue(), a.GetUnit(), [(c, list(ue)) for c, ue in q.GetCategoryToUnitAndExps().items()],
                     q.GetComposingUnits(), hash(q))
            if after != before:
                return dict(err="other", detail="the left operand changed: %r -> %r" % (before[2], after[2]))
            return out
        if k == "createu":
            from barril.units import ObtainQuantity

            how = op.get("how", "scalar")
            if how == "obtain":
                q = ObtainQuantity(op["u"])
                return dict(ok=dict(cat=q.GetCategory(), unit=q.GetUnit()))
            s = Scalar(1.0, op["u"]) if how == "scalar" else Scalar((1.0, op["u"]))
            return dict(ok=dict(cat=s.GetCategory(), unit=s.GetUnit()))
        if k == "createdict":
            q = _obtain_entries(op["es"], op["how"])
            return dict(ok=dict(cat=q.GetCategory(), unit=q.GetUnit(), qt=q.GetQuantityType(), derived=bool(q.IsDerived())))
        if k == "cmpq":
            import operator

            via = op.get("via", "op")
            if via == "op":
                X = _value_of(op["a"], op["x"], op.get("build", "dict"))
                Y = _value_of(op["b"], op["y"], op.get("build", "dict"))
                r = dict(lt=operator.lt, le=operator.le, gt=operator.gt, ge=operator.ge)[op["f"]](X, Y)
                return dict(ok=dict(b=bool(r)))
            # sorted([X, Y]) / min(X, Y) / max(X, Y): the comparison is `Y < X` (`Y > X` for max); the right
            # operand of the call is the left operand of the comparison, so it is built first
            Y = _value_of(op["b"], op["y"], op.get("build", "dict"))
            X = _value_of(op["a"], op["x"], op.get("build", "dict"))
            if via == "sorted":
                r = sorted([X, Y])[0] is Y
            elif via == "min":
                r = min(X, Y) is Y
            else:
                r = max(X, Y) is Y
            return dict(ok=dict(b=bool(r)))
        if k in ("sumq", "eqq"):
            return _run_sum(op)
        if k == "addcat":
            db.AddCategory(op["c"], op["qt"], override=bool(op["override"]))
            return dict(ok=None)
        if k == "addunit":
            db.AddUnit(op["qt"], op["name"], op["u"], "%f / " + repr(float(op["scale"])), "%f * " + repr(float(op["scale"])),
                       default_category=op.get("dc") or None)
            return dict(ok=None)
        a = Scalar(op["x"], op["u1"], op["c1"])
        b = Scalar(op["y"], op["u2"], op["c2"])
        if k == "arith":
            r = a + b if op["f"] == "add" else a - b
            return dict(ok=dict(cat=r.GetCategory(), unit=r.GetUnit(), x=float(r.GetValue()).hex()))
        if k == "cmp":
            f = op["f"]
            r = (a < b) if f == "lt" else (a <= b) if f == "le" else (a > b) if f == "gt" else (a >= b)
            return dict(ok=dict(b=bool(r)))
    except Exception as e:
        return dict(err=err_kind(e))
    return dict(err="other")


def _snap_value(o):
    vals = [o.value] if hasattr(o, "value") else [float(v) for v in o.values]
    held = None if hasattr(o, "value") else type(o.values).__name__
    q = o.GetQuantity()
    return ([float(v).hex() for v in vals], held, o.GetUnit(), o.GetCategory(), _canonq(q), q.GetComposingUnits())


def _run_sum(op):
    """`X + Y` / `X - Y` (or `==` of the two quantities) of operands built by the real operators; the operands
    must be what they were afterwards"""
    a, b = _build_tree(op["ta"], op["w"]), _build_tree(op["tb"], op["w"])
    if op["k"] == "eqq":
        return dict(ok=dict(b=bool(a.GetQuantity() == b.GetQuantity())))
    before = (_snap_value(a), _snap_value(b))
    try:
        r = a + b if op["f"] == "add" else a - b
        q = _canonq(r.GetQuantity())
        out = dict(ok=dict(e=q["es"], cap=q["cap"], derived=q["derived"], x=_first(r).hex()))
    except Exception as e:
        out = dict(err=err_kind(e))
    after = (_snap_value(a), _snap_value(b))
    if after != before:
        return dict(err="other", detail="an operand changed: %r -> %r" % (before, after))
    return out


def _fresh(db):
    db.quantities_cache.clear()
    db._category_unit_valid.clear()


def _private_db():
    from barril.units.unit_database import UnitDatabase

    db = UnitDatabase()
    UnitDatabase.FillUnitDatabaseWithPosc(db)
    return db


def impl(c, ctx):
    from barril.units.unit_database import UnitDatabase

    ops = c["_t"]["ops"]
    if any(op["k"] in REG_KINDS for op in ops):
        db = _private_db()      # a history with registrations gets a database of its own
    else:
        db = ctx.db
        _fresh(db)
    UnitDatabase.PushSingleton(db)
    try:
        outs = []
        for op in ops:
            o = _run_op(db, op)
            if "ok" in o and op["k"] in ("convert", "getvalue"):
                o["omag"] = _offset_mag(db, op)   # read from the registry as it is at this point of the history
            outs.append(o)
    finally:
        UnitDatabase.PopSingleton()
    n = ctx.notes.setdefault("operations", {})
    for op, o in zip(ops, outs):
        key = op["k"] + ("/" + o["err"] if "err" in o else "/ok")
        n[key] = n.get(key, 0) + 1
    return dict(outs=outs)


def _offset_mag(db, op):
    """magnitude of the offsets a conversion passes through, in the result's unit (units such as degC or psig:
    the float computation goes through the base unit, so its rounding is relative to the offset, not to the
    possibly tiny result; same rule as C01's driver)"""
    try:
        if op["k"] == "convert":
            cq, v = op["cq"], op["v"]
        elif op["k"] == "getvalue":
            cq, v = op["c"], op["v"]
        else:
            return 0.0
        cats = db.categories_to_quantity_types
        qt = cats[cq].quantity_type if cq in cats else cq
        base = db.quantity_types[qt][0].unit
        return abs(float(db.Convert(qt, base, v, 0.0))) + abs(float(db.Convert(qt, op["u"], v, 0.0)))
    except Exception:
        return 0.0


def _agree_op(op, io, mo, extra_mag=0.0):
    if ("err" in io) != ("err" in mo):
        return "one side fails: impl=%s model=%s" % (io, mo)
    if "err" in io:
        return None if io["err"] == mo["err"] else "error kinds differ: impl=%s model=%s" % (io["err"], mo["err"])
    a, b = io["ok"], mo["ok"]
    if op["k"] == "sumq":
        if not isinstance(b, dict) or "e" not in b:
            return "shape: impl=%s model=%s" % (a, b)
        me = [[unsym(int(c)), unsym(int(u)), int(e)] for c, u, e in b["e"]]
        if a["e"] != me or a["cap"] != unsym(int(b["cap"])) or a["derived"] != b["derived"]:
            return "quantity of the result differs: impl=%s model=%s" % (a, dict(e=me, cap=unsym(int(b["cap"])), derived=b["derived"]))
        r = float.fromhex(a["x"])
        if not close(r, qparse(b["x"]), qparse(b["M"])):
            return "value %r not within K*eps*M of %s" % (r, float(qparse(b["x"])))
        return None
    if op["k"] == "createderived":
        return None  # both accept: the model's stand-in is the simple creation, the derived strings are C07's/C20's
    if a is None or b is None:
        return None if a is None and b is None else "shape"
    for key in ("cat", "unit", "qt"):
        if (key in a) != (key in b) or (key in a and a[key] != unsym(int(b[key]))):
            return "%s differs: impl=%s model=%s" % (key, a.get(key), unsym(int(b[key])) if key in b else None)
    if a.get("derived") != b.get("derived"):
        return "derived flag differs: impl=%s model=%s" % (a.get("derived"), b.get("derived"))
    if "b" in a or "b" in b:
        if a.get("b") != b.get("b"):
            # a verdict decided inside float rounding is a don't-care: the generator keeps operands apart
            return "order verdict differs: impl=%s model=%s" % (a.get("b"), b.get("b"))
    if "x" in a or "x" in b:
        if ("x" in a) != ("x" in b):
            return "shape"
        r = float.fromhex(a["x"])
        if not close(r, qparse(b["x"]), max(qparse(b["M"]), exact(extra_mag))):
            return "value %r not within K*eps*M of %s" % (r, float(qparse(b["x"])))
    return None


def agree(c, io, mo, ctx):
    ops = c["_t"]["ops"]
    spans = c["_t"].get("spans") or [(i, 1) for i in range(len(ops))]
    mouts = mo.get("outs", [])
    if len(io["outs"]) != len(ops) or (spans and spans[-1][0] + spans[-1][1] != len(mouts)) or (not spans and mouts):
        return "length"
    for i, (op, a, (start, n)) in enumerate(zip(ops, io["outs"], spans)):
        part = mouts[start:start + n]
        b = part[-1]
        for earlier in part[:-1]:
            if "err" in earlier:  # the object could not even be created: that is the outcome of the whole step
                b = earlier
                break
        why = _agree_op(op, a, b, a.get("omag", 0.0))
        if why:
            return "step %d %s: %s" % (i, op, why)
    return None


def nontrivial(c, io):
    return any("err" in o for o in io["outs"])


def case_key(c):
    return model_line(c)


# ------------------------------------------------------------- the property on the real code only
def _qt(db, cat_or_none, unit):
    """quantity type of a unit as the registry sees it (legacy spelling resolved)"""
    from barril.units.unit_database import FixUnitIfIsLegacy

    qt = db.GetQuantityType(unit)
    if qt is None:
        qt = db.GetQuantityType(FixUnitIfIsLegacy(unit)[1])
    return qt


def _snapshot(db):
    return (
        tuple((qt, tuple((i.unit, i.name, i.default_category) for i in infos)) for qt, infos in db.quantity_types.items()),
        tuple((n, ci.quantity_type, tuple(ci.valid_units) if ci.valid_units is not None else None, ci.default_unit,
               ci.default_value, ci.min_value, ci.max_value) for n, ci in db.categories_to_quantity_types.items()),
        tuple(sorted(db.unit_to_unit_info)),
    )


def _tree_dims(db, t):
    """dimension vector of an operand expression from its leaves only (quantity type of the leaf's category ->
    exponent), by the rules of dimensional analysis; None when a name is not registered, the Unknown type occurs or
    a leaf's unit is not of its category's type"""
    k = t[0]
    if k == "N":
        return {}
    if k == "L":
        cats = db.categories_to_quantity_types
        qt = cats[t[3]].quantity_type if t[3] in cats else None
        if qt is None or qt == "Unknown" or _qt(db, None, t[2]) != qt:
            return None
        return {} if qt == "dimensionless" else {qt: 1}
    if k == "^":
        a = _tree_dims(db, t[1])
        return None if a is None else {q: e * t[2] for q, e in a.items()}
    a, b = _tree_dims(db, t[1]), _tree_dims(db, t[2])
    if a is None or b is None:
        return None
    d = dict(a)
    for q, e in b.items():
        d[q] = d.get(q, 0) + (e if k == "*" else -e)
    return {q: e for q, e in d.items() if e != 0}


def _must_fail(db, op):
    """Does the property demand a units/type error for this operation?  (None = it does not say.)"""
    k = op["k"]
    cats = db.categories_to_quantity_types

    def cat_type(c):
        return cats[c].quantity_type if c in cats else None

    if k == "convert":
        t = cat_type(op["cq"]) or (op["cq"] if op["cq"] in db.quantity_types else None)
        if t is None or t == "Unknown" or op["u"] == op["v"]:
            return None
        tu, tv = _qt(db, None, op["u"]), _qt(db, None, op["v"])
        if tu is None or tv is None:
            return None
        return "units" if (tu != t or tv != t) else None
    if k == "create":
        t = cat_type(op["c"])
        tu = _qt(db, None, op["u"])
        if t is None or tu is None or t == "Unknown":
            return None
        return "units" if tu != t else None
    if k == "getvalue":
        t = cat_type(op["c"])
        tu, tv = _qt(db, None, op["u"]), _qt(db, None, op["v"])
        if None in (t, tu, tv) or t == "Unknown":
            return None
        return "units" if (tu != t or tv != t) else None
    if k == "createderived":
        t = cat_type(op["c"])
        tu = _qt(db, None, op["u"])
        if t is None or tu is None or t == "Unknown":
            return None
        return "units" if tu != t else None
    if k == "arithnd":
        t1, t2 = cat_type(op["c1"]), cat_type(op["c2"])
        if None in (t1, t2) or "Unknown" in (t1, t2) or t1 == t2:
            return None
        return "units"
    if k == "arithd":
        t1, t2 = cat_type(op["c1"]), cat_type(op["c2"])
        if None in (t1, t2) or "Unknown" in (t1, t2) or t1 == t2:
            return None
        return "units"
    if k == "sumq":
        va, vb = _tree_dims(db, op["ta"]), _tree_dims(db, op["tb"])
        if va is None or vb is None or not va or not vb:     # unknown names, the Unknown type, dimensionless: exempt
            return None
        return "units" if va != vb else None
    if k == "eqq":
        return None

    def vec(es):
        """joined quantity-type exponents of composing entries (the dimension vector); "mismatch" when the unit of
        an entry is of another quantity type than its category; None when the property does not say (names that
        are not registered, the Unknown type)"""
        v = {}
        for c, u, e in es:
            t, tu = cat_type(c), _qt(db, None, u)
            if t is None or tu is None or t == "Unknown":
                return None
            if tu != t:
                return "mismatch"
            if t != "dimensionless":
                v[t] = v.get(t, 0) + e
        return {t: e for t, e in v.items() if e != 0}

    if k == "createu":
        # Scalar(v, unit): the category is the unit's default category (else the category named as its type)
        info = db.unit_to_unit_info.get(op["u"])
        if info is None:
            return None
        c = info.default_category or (info.quantity_type if info.quantity_type in cats else None)
        t = cat_type(c) if c else None
        if t is None or t == "Unknown":
            return None
        return "units" if info.quantity_type != t else None
    if k == "createdict":
        return "units" if vec(op["es"]) == "mismatch" else None
    if k == "cmpq":
        va, vb = vec(op["a"]), vec(op["b"])
        if va is None or vb is None:
            return None
        if "mismatch" in (va, vb):
            return "units"
        if not va or not vb:      # a dimensionless operand: exempt
            return None
        return "type" if va != vb else None
    if k in ("arith", "cmp"):
        t1, t2 = cat_type(op["c1"]), cat_type(op["c2"])
        tu1, tu2 = _qt(db, None, op["u1"]), _qt(db, None, op["u2"])
        if None in (t1, t2, tu1, tu2) or t1 != tu1 or t2 != tu2 or "Unknown" in (t1, t2):
            return None
        if t1 != t2:
            return "units" if k == "arith" else "type"
    return None


def oracle(c, ctx):
    from barril.units.unit_database import UnitDatabase

    ops = c["_t"]["ops"]

    def run_all(keep, upto=None):
        db = UnitDatabase()
        UnitDatabase.FillUnitDatabaseWithPosc(db)
        UnitDatabase.PushSingleton(db)
        outs = []
        try:
            for i, op in enumerate(ops if upto is None else ops[:upto + 1]):
                if not keep(i):
                    outs.append(None)
                    continue
                before = _snapshot(db)
                o = _run_op(db, op)
                want = _must_fail(db, op)
                if want and "err" not in o:
                    return None, dict(clause="incompatible operation returned a result", step=i, op=op, got=o)
                if want and o["err"] not in ("units", "type"):
                    return None, dict(clause="incompatible operation raised neither a units nor a type error",
                                      step=i, op=op, got=o)
                if "err" in o and _snapshot(db) != before:
                    return None, dict(clause="a failed operation changed the unit database", step=i, op=op)
                outs.append(o)
        finally:
            UnitDatabase.PopSingleton()
        return outs, None

    outs, f = run_all(lambda i: True)
    if f:
        return f
    failed = {i for i, o in enumerate(outs) if o is not None and "err" in o}
    if failed:
        outs2, f = run_all(lambda i: i not in failed)
        if f:
            return f
        for i, (a, b) in enumerate(zip(outs, outs2)):
            if i not in failed and a != b:
                return dict(clause="a later operation behaves differently after an earlier failure",
                            step=i, op=ops[i], with_failures=a, without=b, failed_steps=sorted(failed)[:10])
        # an operation that fails in the history although it succeeds on a database object with empty memo tables
        # over the same registry (the successful registrations before it): when it also succeeds in the history
        # without the earlier failed steps, the failures are what made it fail
        ref = _private_db()
        UnitDatabase.PushSingleton(ref)
        suspects = []
        try:
            for j, op in enumerate(ops):
                if op["k"] in REG_KINDS:
                    if "err" not in outs[j]:
                        _fresh(ref)
                        _run_op(ref, op)
                elif j in failed and any(i < j for i in failed):
                    _fresh(ref)
                    if "err" not in _run_op(ref, op):
                        suspects.append(j)
        finally:
            UnitDatabase.PopSingleton()
        for j in suspects[:3]:
            earlier = {i for i in failed if i < j}
            outs3, f = run_all(lambda i: i not in earlier, upto=j)
            if f:
                return f
            if "err" not in outs3[j]:
                return dict(clause="a later valid operation fails because of an earlier failure", step=j, op=ops[j],
                            with_failures=outs[j], without=outs3[j], failed_steps=sorted(earlier)[:10])
    return None


def search(ctx):
    yield from _gen_sums(ctx, "s", 100 if ctx.tier == "quick" else 600)
    yield from _gen_collide(ctx, "s", ctx.collide, 100)
    yield from _gen_reg(ctx, "s", 150 if ctx.tier == "quick" else 1500)
    yield from _gen(ctx, "s", ctx.tier != "quick", 500)


def shrink(case, failure, ctx):
    """drop operations while the oracle still fails"""
    ops = list(case["_t"]["ops"])
    i = 0
    budget = 60
    while i < len(ops) and budget > 0:
        trial = ops[:i] + ops[i + 1:]
        budget -= 1
        f = oracle(_history(trial), ctx) if trial else None
        if f:
            ops, failure = trial, f
        else:
            i += 1
    return _history(ops), failure
