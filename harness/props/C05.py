"""C05 - dimensionally incompatible operations fail loudly and change nothing.

Decided by Barril/Props/C05.lean: error-decision theorems for conversion, creation, simple-operand
arithmetic and ordering, and `failed_step_invisible(_in_history)`: in every reachable session state
every operation answers as on a fresh session, so a failure (indeed any operation) is invisible to
all later ones.  Tie: histories of operations on a private POSC database, executed on the real
code and on the session model (`drv_fail`), compared step by step."""
import translate
from common import close, err_kind, exact, qparse, qstr, sym, unsym

ID = "C05"
LEAN_MODULES = ["Barril.Props.C05"]
DRIVERS = ["drv_fail"]
DRIVER_EXE = "drv_fail"
RULE = ("histories (<= 60 operations) over a private POSC database: every ordered pair of the 191 quantity "
        "types (one seeded unit and category each) through Convert / Scalar creation / + - / < <= > >= / "
        "Scalar.GetValue, Array.GetValues, FractionScalar.GetValue in a unit of the other type (also after a valid "
        "use of that unit, so that memoised conversion data is warm), derived quantities requested through "
        "Quantity.CreateDerived and ObtainQuantity(dict) with a foreign unit under a category, failing sums whose "
        "left operand is a hand-built or numpy-backed derived value (operand snapshots), legacy-"
        "spelled foreign units, the Unknown type, repeated failures (memo path) and interleaved valid operations "
        "on units and categories of one type; distinct = distinct operation; non-trivial = the operation mixes "
        "two quantity types or follows a failed operation in its history")
EXHAUSTIVE = {"quick": False, "thorough": False}
ASSUMPTIONS = ["derived operands of + and - stand in the model as simple operands of the same quantity types (their arithmetic is engine Alg, C03); object aliasing by C13",
               "float results within K*eps*M of the exact model (checked, not proved)"]


def setup(ctx):
    from barril.units.unit_database import UnitDatabase

    db = UnitDatabase()
    UnitDatabase.FillUnitDatabaseWithPosc(db)
    ctx.db = db
    ctx.types = list(db.quantity_types)
    ctx.units = {qt: [i.unit for i in infos] for qt, infos in db.quantity_types.items()}
    cats = {}
    for name, ci in db.categories_to_quantity_types.items():
        cats.setdefault(ci.quantity_type, []).append(name)
    ctx.cats = cats
    from barril.units.unit_database import _LEGACY_TO_CURRENT

    leg = []
    for qt, us in ctx.units.items():
        for u in us:
            for old, new in _LEGACY_TO_CURRENT:
                if new in u:
                    s = u.replace(new, old)
                    if s not in db.unit_to_unit_info:
                        leg.append((qt, s))
    ctx.legacy = sorted(set(leg))


def _cat(ctx, rng, qt):
    cs = ctx.cats.get(qt) or [qt]
    return rng.choice(cs)


def _mk_ops(ctx, rng, a_t, b_t, which):
    """operations mixing quantity types a_t and b_t"""
    ua, ub = rng.choice(ctx.units[a_t]), rng.choice(ctx.units[b_t])
    ca, cb = _cat(ctx, rng, a_t), _cat(ctx, rng, b_t)
    x, y = rng.choice([1.5, -2.0, 0.0, 37.25, 1e6]), rng.choice([2.5, -1.0, 100.0, 0.001])
    ops = []
    if "convert" in which:
        ops.append(dict(k="convert", cq=rng.choice([ca, a_t]), u=ua, v=ub, x=x))
    if "create" in which:
        ops.append(dict(k="create", c=ca, u=ub))
        if rng.random() < 0.5:
            # a derived quantity requested with a unit of another quantity type under one of its categories
            # (single entry with an exponent other than 1, or two entries)
            ops.append(dict(k="createderived", c=ca, u=ub, e=rng.choice([2, -1, 3, -2]),
                            extra=rng.random() < 0.4, c2=cb, u2=ub, how=rng.choice(["CreateDerived", "ObtainQuantity"])))
    if "arith" in which:
        ops.append(dict(k="arith", f=rng.choice(["add", "sub"]), c1=ca, u1=ua, c2=cb, u2=ub, x=x, y=y))
        if a_t != b_t and rng.random() < 0.5 and len(ctx.units[a_t]) > 1 and len(ctx.cats.get(a_t, [])) > 1:
            # left operand: a hand-built derived quantity holding two categories of ONE quantity type in two
            # different units (only obtainable through CreateDerived); the incompatible sum must fail and must
            # not rewrite the units of that operand's interned quantity
            c1b = rng.choice([c for c in ctx.cats[a_t] if c != ca])
            u1b = rng.choice([u for u in ctx.units[a_t] if u != ua])
            ops.append(dict(k="arithd", f=rng.choice(["add", "sub"]), c1=ca, u1=ua, c1b=c1b, u1b=u1b,
                            c2=cb, u2=ub, x=x, y=y))
        if a_t != b_t and rng.random() < 0.4 and len(ctx.units[a_t]) > 1:
            # numpy-valued Arrays of derived quantities: u1^2 (type a) against u1'^2 * u2^-1 (types a and b): the
            # units of type a get matched (scaling the values) BEFORE the dimension check fails
            u1b = rng.choice([u for u in ctx.units[a_t] if u != ua])
            ops.append(dict(k="arithnd", f=rng.choice(["add", "sub"]), c1=ca, u1=ua, u1b=u1b, c2=cb, u2=ub,
                            x=x, y=y, swap=rng.random() < 0.5))
    if "cmp" in which:
        ops.append(dict(k="cmp", f=rng.choice(["lt", "le", "gt", "ge"]), c1=ca, u1=ua, c2=cb, u2=ub, x=x, y=y))
    if "check" in which:
        ops.append(dict(k="check", c=ca, u=ub))
    if "getvalue" in which:
        # a value object asked for its value in a unit of another quantity type (object-level conversion routes)
        if rng.random() < 0.6:
            # first a VALID conversion into the very unit that is then asked of a value of another type
            ops.append(dict(k="getvalue", w=rng.choice(["scalar", "array", "fraction"]), c=cb,
                            u=rng.choice(ctx.units[b_t]), v=ub, x=y))
        ops.append(dict(k="getvalue", w=rng.choice(["scalar", "array", "fraction"]), c=ca, u=ua, v=ub, x=x))
    return ops


def _valid_ops(ctx, rng, qt):
    us = ctx.units[qt]
    ua, ub = rng.choice(us), rng.choice(us)
    ca, cb = _cat(ctx, rng, qt), _cat(ctx, rng, qt)
    x, y = rng.uniform(-50, 50), rng.uniform(0.5, 50)
    return [rng.choice([
        dict(k="convert", cq=ca, u=ua, v=ub, x=x),
        dict(k="create", c=ca, u=ub),
        dict(k="arith", f=rng.choice(["add", "sub"]), c1=ca, u1=ua, c2=cb, u2=ub, x=x, y=y),
        dict(k="cmp", f=rng.choice(["lt", "le", "gt", "ge"]), c1=ca, u1=ua, c2=cb, u2=ub, x=x, y=y + 1000 * abs(x) + 1000),
        dict(k="check", c=ca, u=ub),
        dict(k="getvalue", w=rng.choice(["scalar", "array", "fraction"]), c=ca, u=ua, v=ub, x=x),
        dict(k="getvalue", w=rng.choice(["scalar", "array", "fraction"]), c=ca, u=ua, v=ub, x=x),
    ])]


def _expand(op):
    """model-side reading of an operation: `getvalue` = create the object, then convert its value (that the
    object-level routes equal the database conversion is C02's theorem scalar_getValue_eq_convert)"""
    if op["k"] == "getvalue":
        return [dict(k="create", c=op["c"], u=op["u"]), dict(k="convert", cq=op["c"], u=op["u"], v=op["v"], x=op["x"])]
    if op["k"] == "createderived":
        # model stand-in: creating a value of category c with the foreign unit u is rejected
        return [dict(k="create", c=op["c"], u=op["u"])]
    if op["k"] == "arithnd":
        return [dict(k="arith", f=op["f"], c1=op["c1"], u1=op["u1"], c2=op["c2"], u2=op["u2"], x=op["x"], y=op["y"])]
    if op["k"] == "arithd":
        # the model's simple operands stand in for the derived left operand: dimensions differ, so the sum is
        # rejected (derived operands themselves are engine Alg's, C03)
        return [dict(k="arith", f=op["f"], c1=op["c1"], u1=op["u1"], c2=op["c2"], u2=op["u2"], x=op["x"], y=op["y"])]
    return [op]


def _encode(op):
    o = dict(k=op["k"])
    for key, v in op.items():
        if key in ("c", "u", "v", "cq", "c1", "u1", "c2", "u2"):
            o[key] = str(sym(v))
        elif key in ("x", "y"):
            o[key] = qstr(exact(v))
        elif key == "f":
            o[key] = v
    return o


def _history(ops):
    enc, spans = [], []
    for o in ops:
        ex = _expand(o)
        spans.append((len(enc), len(ex)))
        enc += [_encode(e) for e in ex]
    return dict(op="history", ops=enc, _t=dict(ops=ops, spans=spans))


def _gen(ctx, salt, all_ops, n_random):
    rng = ctx.fresh_rng("C05" + salt)
    types = ctx.types
    kinds = ["convert", "create", "arith", "cmp", "check", "getvalue"]
    buf = []

    def flush():
        nonlocal buf
        if buf:
            h = _history(buf)
            buf = []
            return h
        return None

    i = 0
    for a_t in types:
        for b_t in types:
            if a_t == b_t:
                continue
            which = kinds if all_ops else [kinds[i % len(kinds)]]
            i += 1
            if rng.random() < 0.3:
                # a valid use of the other type first, so that whatever a route memoises for it is warm
                buf += [o for o in _valid_ops(ctx, rng, b_t) if o["k"] == "getvalue"]
            buf += _mk_ops(ctx, rng, a_t, b_t, which)
            if rng.random() < 0.15:
                buf += _valid_ops(ctx, rng, rng.choice([a_t, b_t]))
            if rng.random() < 0.05 and buf:
                buf.append(dict(buf[rng.randrange(len(buf))]))  # repeat an earlier operation (memo / cache path)
            if len(buf) >= 60:
                yield flush()
    h = flush()
    if h:
        yield h
    # legacy-spelled foreign units, Unknown type, unknown names
    for _ in range(n_random):
        ops = []
        for _ in range(rng.randint(3, 25)):
            r = rng.random()
            a_t = rng.choice(types)
            if r < 0.35 and ctx.legacy:
                b_t, leg = rng.choice(ctx.legacy)
                ua, ca = rng.choice(ctx.units[a_t]), _cat(ctx, rng, a_t)
                ops.append(rng.choice([
                    dict(k="convert", cq=ca, u=ua, v=leg, x=1.0),
                    dict(k="convert", cq=ca, u=leg, v=ua, x=1.0),
                    dict(k="create", c=ca, u=leg),
                    dict(k="cmp", f="lt", c1=ca, u1=ua, c2=_cat(ctx, rng, b_t), u2=leg, x=1.0, y=2.0),
                    dict(k="arith", f="add", c1=_cat(ctx, rng, b_t), u1=leg, c2=ca, u2=ua, x=1.0, y=2.0),
                ]))
            elif r < 0.5:
                ua = rng.choice(ctx.units[a_t])
                ops.append(rng.choice([
                    dict(k="convert", cq="Unknown", u=ua, v="<unknown>", x=3.0),
                    dict(k="convert", cq="Unknown", u="<unknown>", v=ua, x=3.0),
                    dict(k="create", c="Unknown", u=ua),
                    dict(k="create", c="no such category", u=ua),
                    dict(k="convert", cq="no such type", u=ua, v="m", x=1.0),
                    dict(k="create", c=_cat(ctx, rng, a_t), u="not a unit"),
                    dict(k="check", c="no such category", u=ua),
                ]))
            elif r < 0.8:
                ops += _valid_ops(ctx, rng, a_t)
            else:
                ops += _mk_ops(ctx, rng, a_t, rng.choice(types), [rng.choice(kinds)])
            if ops and rng.random() < 0.2:
                ops.append(dict(ops[rng.randrange(len(ops))]))
        yield _history(ops)


def cases(ctx):
    if ctx.tier == "quick":
        yield from _gen(ctx, "q", False, 300)
    else:
        yield from _gen(ctx, "t", True, 3000)
        # two more passes over all ordered type pairs with other seeded units, categories and values
        yield from _gen(ctx, "t2", True, 0)
        yield from _gen(ctx, "t3", True, 0)


def model_line(c):
    return {k: v for k, v in c.items() if k != "_t"}


def show(c):
    return c["_t"]["ops"][:6]


def _run_op(db, op):
    """One operation on the real code (the private database is the singleton at this point)."""
    from barril.units import Scalar

    k = op["k"]
    try:
        if k == "create":
            s = Scalar(1.0, op["u"], op["c"])
            return dict(ok=dict(cat=s.GetCategory(), unit=s.GetUnit()))
        if k == "check":
            db.CheckCategoryUnit(op["c"], op["u"])
            return dict(ok=None)
        if k == "convert":
            r = db.Convert(op["cq"], op["u"], op["v"], op["x"])
            return dict(ok=dict(x=float(r).hex()))
        if k == "getvalue":
            from barril.units import Array, FractionScalar
            from barril.basic.fraction import FractionValue

            if op["w"] == "scalar":
                r = Scalar(op["x"], op["u"], op["c"]).GetValue(op["v"])
            elif op["w"] == "array":
                r = Array([op["x"]], op["u"], op["c"]).GetValues(op["v"])[0]
            else:
                r = float(FractionScalar(op["c"], FractionValue(op["x"]), op["u"]).GetValue(op["v"]))
            return dict(ok=dict(x=float(r).hex()))
        if k == "createderived":
            from collections import OrderedDict
            from barril.units import ObtainQuantity
            from barril.units._quantity import Quantity

            items = [(op["c"], [op["u"], op["e"]])]
            if op["extra"] and op["c2"] != op["c"]:
                items.append((op["c2"], [op["u2"], 1]))
            m = OrderedDict(items)
            # both forms run the same category/unit check (ObtainQuantity(dict) since fix 42c424f)
            q = Quantity.CreateDerived(m) if op["how"] == "CreateDerived" else ObtainQuantity(m)
            s0 = Scalar.CreateWithQuantity(q, 1.0)
            return dict(ok=dict(cat=s0.GetCategory(), unit=s0.GetUnit()))
        if k == "arithnd":
            import numpy
            from barril.units import Array

            def sq(unit, cat, v):
                a0 = Array(numpy.array([v, 2 * v + 1.0]), unit, cat)
                return a0 * a0

            left = sq(op["u1"], op["c1"], op["x"])
            right = sq(op["u1b"], op["c1"], op["y"]) / Array(numpy.array([2.0, 4.0]), op["u2"], op["c2"])
            if op["swap"]:
                left, right = right, left
            keep = [(o, o.GetValues().copy(), o.GetUnit()) for o in (left, right)]
            try:
                r = left + right if op["f"] == "add" else left - right
                out = dict(ok=dict(cat=r.GetCategory(), unit=r.GetUnit(), x=float(r.GetValues()[0]).hex()))
            except Exception as e:
                out = dict(err=err_kind(e))
            for o, vals, unit in keep:
                if o.GetUnit() != unit or not numpy.array_equal(o.GetValues(), vals):
                    return dict(err="other", detail="an operand changed: %r -> %r [%s]" % (list(vals), list(o.GetValues()), unit))
            return out
        if k == "arithd":
            from collections import OrderedDict
            from barril.units._quantity import Quantity

            q = Quantity.CreateDerived(OrderedDict([(op["c1"], [op["u1"], 1]), (op["c1b"], [op["u1b"], 1])]))
            a = Scalar.CreateWithQuantity(q, op["x"])
            b = Scalar(op["y"], op["u2"], op["c2"])
            before = (a.GetValue(), a.GetUnit(), [(c, list(ue)) for c, ue in q.GetCategoryToUnitAndExps().items()],
                      q.GetComposingUnits(), hash(q))
            try:
                r = a + b if op["f"] == "add" else a - b
                out = dict(ok=dict(cat=r.GetCategory(), unit=r.GetUnit(), x=float(r.GetValue()).hex()))
            except Exception as e:
                out = dict(err=err_kind(e))
            after = (a.GetValue(), a.GetUnit(), [(c, list(ue)) for c, ue in q.GetCategoryToUnitAndExps().items()],
                     q.GetComposingUnits(), hash(q))
            if after != before:
                return dict(err="other", detail="the left operand changed: %r -> %r" % (before[2], after[2]))
            return out
        a = Scalar(op["x"], op["u1"], op["c1"])
        b = Scalar(op["y"], op["u2"], op["c2"])
        if k == "arith":
            r = a + b if op["f"] == "add" else a - b
            return dict(ok=dict(cat=r.GetCategory(), unit=r.GetUnit(), x=float(r.GetValue()).hex()))
        if k == "cmp":
            f = op["f"]
            r = (a < b) if f == "lt" else (a <= b) if f == "le" else (a > b) if f == "gt" else (a >= b)
            return dict(ok=dict(b=bool(r)))
    except Exception as e:
        return dict(err=err_kind(e))
    return dict(err="other")


def _fresh(db):
    db.quantities_cache.clear()
    db._category_unit_valid.clear()


def impl(c, ctx):
    from barril.units.unit_database import UnitDatabase

    db = ctx.db
    _fresh(db)
    UnitDatabase.PushSingleton(db)
    try:
        outs = [_run_op(db, op) for op in c["_t"]["ops"]]
    finally:
        UnitDatabase.PopSingleton()
    n = ctx.notes.setdefault("operations", {})
    for op, o in zip(c["_t"]["ops"], outs):
        key = op["k"] + ("/" + o["err"] if "err" in o else "/ok")
        n[key] = n.get(key, 0) + 1
    return dict(outs=outs)


def _offset_mag(db, op):
    """magnitude of the offsets a conversion passes through, in the result's unit (units such as degC or psig:
    the float computation goes through the base unit, so its rounding is relative to the offset, not to the
    possibly tiny result; same rule as C01's driver)"""
    try:
        if op["k"] == "convert":
            cq, v = op["cq"], op["v"]
        elif op["k"] == "getvalue":
            cq, v = op["c"], op["v"]
        else:
            return 0.0
        cats = db.categories_to_quantity_types
        qt = cats[cq].quantity_type if cq in cats else cq
        base = db.quantity_types[qt][0].unit
        return abs(float(db.Convert(qt, base, v, 0.0))) + abs(float(db.Convert(qt, op["u"], v, 0.0)))
    except Exception:
        return 0.0


def _agree_op(op, io, mo, extra_mag=0.0):
    if ("err" in io) != ("err" in mo):
        return "one side fails: impl=%s model=%s" % (io, mo)
    if "err" in io:
        return None if io["err"] == mo["err"] else "error kinds differ: impl=%s model=%s" % (io["err"], mo["err"])
    a, b = io["ok"], mo["ok"]
    if op["k"] == "createderived":
        return None  # both accept: the model's stand-in is the simple creation, the derived strings are C07's/C20's
    if a is None or b is None:
        return None if a is None and b is None else "shape"
    for key in ("cat", "unit"):
        if (key in a) != (key in b) or (key in a and a[key] != unsym(int(b[key]))):
            return "%s differs: impl=%s model=%s" % (key, a.get(key), unsym(int(b[key])) if key in b else None)
    if "b" in a or "b" in b:
        if a.get("b") != b.get("b"):
            # a verdict decided inside float rounding is a don't-care: the generator keeps operands apart
            return "order verdict differs: impl=%s model=%s" % (a.get("b"), b.get("b"))
    if "x" in a or "x" in b:
        if ("x" in a) != ("x" in b):
            return "shape"
        r = float.fromhex(a["x"])
        if not close(r, qparse(b["x"]), max(qparse(b["M"]), exact(extra_mag))):
            return "value %r not within K*eps*M of %s" % (r, float(qparse(b["x"])))
    return None


def agree(c, io, mo, ctx):
    ops = c["_t"]["ops"]
    spans = c["_t"].get("spans") or [(i, 1) for i in range(len(ops))]
    mouts = mo.get("outs", [])
    if len(io["outs"]) != len(ops) or (spans and spans[-1][0] + spans[-1][1] != len(mouts)) or (not spans and mouts):
        return "length"
    for i, (op, a, (start, n)) in enumerate(zip(ops, io["outs"], spans)):
        part = mouts[start:start + n]
        b = part[-1]
        for earlier in part[:-1]:
            if "err" in earlier:  # the object could not even be created: that is the outcome of the whole step
                b = earlier
                break
        why = _agree_op(op, a, b, _offset_mag(ctx.db, op) if "ok" in a and op["k"] in ("convert", "getvalue") else 0.0)
        if why:
            return "step %d %s: %s" % (i, op, why)
    return None


def nontrivial(c, io):
    return any("err" in o for o in io["outs"])


def case_key(c):
    return model_line(c)


# ------------------------------------------------------------- the property on the real code only
def _qt(db, cat_or_none, unit):
    """quantity type of a unit as the registry sees it (legacy spelling resolved)"""
    from barril.units.unit_database import FixUnitIfIsLegacy

    qt = db.GetQuantityType(unit)
    if qt is None:
        qt = db.GetQuantityType(FixUnitIfIsLegacy(unit)[1])
    return qt


def _snapshot(db):
    return (
        tuple((qt, tuple((i.unit, i.name, i.default_category) for i in infos)) for qt, infos in db.quantity_types.items()),
        tuple((n, ci.quantity_type, tuple(ci.valid_units) if ci.valid_units is not None else None, ci.default_unit,
               ci.default_value, ci.min_value, ci.max_value) for n, ci in db.categories_to_quantity_types.items()),
        tuple(sorted(db.unit_to_unit_info)),
    )


def _must_fail(db, op):
    """Does the property demand a units/type error for this operation?  (None = it does not say.)"""
    k = op["k"]
    cats = db.categories_to_quantity_types

    def cat_type(c):
        return cats[c].quantity_type if c in cats else None

    if k == "convert":
        t = cat_type(op["cq"]) or (op["cq"] if op["cq"] in db.quantity_types else None)
        if t is None or t == "Unknown" or op["u"] == op["v"]:
            return None
        tu, tv = _qt(db, None, op["u"]), _qt(db, None, op["v"])
        if tu is None or tv is None:
            return None
        return "units" if (tu != t or tv != t) else None
    if k == "create":
        t = cat_type(op["c"])
        tu = _qt(db, None, op["u"])
        if t is None or tu is None or t == "Unknown":
            return None
        return "units" if tu != t else None
    if k == "getvalue":
        t = cat_type(op["c"])
        tu, tv = _qt(db, None, op["u"]), _qt(db, None, op["v"])
        if None in (t, tu, tv) or t == "Unknown" or tu != t:
            return None
        return "units" if tv != t else None
    if k == "createderived":
        t = cat_type(op["c"])
        tu = _qt(db, None, op["u"])
        if t is None or tu is None or t == "Unknown":
            return None
        return "units" if tu != t else None
    if k == "arithnd":
        t1, t2 = cat_type(op["c1"]), cat_type(op["c2"])
        if None in (t1, t2) or "Unknown" in (t1, t2) or t1 == t2:
            return None
        return "units"
    if k == "arithd":
        t1, t2 = cat_type(op["c1"]), cat_type(op["c2"])
        if None in (t1, t2) or "Unknown" in (t1, t2) or t1 == t2:
            return None
        return "units"
    if k in ("arith", "cmp"):
        t1, t2 = cat_type(op["c1"]), cat_type(op["c2"])
        tu1, tu2 = _qt(db, None, op["u1"]), _qt(db, None, op["u2"])
        if None in (t1, t2, tu1, tu2) or t1 != tu1 or t2 != tu2 or "Unknown" in (t1, t2):
            return None
        if t1 != t2:
            return "units" if k == "arith" else "type"
    return None


def oracle(c, ctx):
    from barril.units.unit_database import UnitDatabase

    ops = c["_t"]["ops"]

    def run_all(keep):
        db = UnitDatabase()
        UnitDatabase.FillUnitDatabaseWithPosc(db)
        UnitDatabase.PushSingleton(db)
        outs = []
        try:
            for i, op in enumerate(ops):
                if not keep(i):
                    outs.append(None)
                    continue
                before = _snapshot(db)
                o = _run_op(db, op)
                want = _must_fail(db, op)
                if want and "err" not in o:
                    return None, dict(clause="incompatible operation returned a result", step=i, op=op, got=o)
                if want and o["err"] not in ("units", "type"):
                    return None, dict(clause="incompatible operation raised neither a units nor a type error",
                                      step=i, op=op, got=o)
                if "err" in o and _snapshot(db) != before:
                    return None, dict(clause="a failed operation changed the unit database", step=i, op=op)
                outs.append(o)
        finally:
            UnitDatabase.PopSingleton()
        return outs, None

    outs, f = run_all(lambda i: True)
    if f:
        return f
    failed = {i for i, o in enumerate(outs) if o is not None and "err" in o}
    if failed:
        outs2, f = run_all(lambda i: i not in failed)
        if f:
            return f
        for i, (a, b) in enumerate(zip(outs, outs2)):
            if i not in failed and a != b:
                return dict(clause="a later operation behaves differently after an earlier failure",
                            step=i, op=ops[i], with_failures=a, without=b, failed_steps=sorted(failed)[:10])
    return None


def search(ctx):
    yield from _gen(ctx, "s", ctx.tier != "quick", 500)


def shrink(case, failure, ctx):
    """drop operations while the oracle still fails"""
    ops = list(case["_t"]["ops"])
    i = 0
    budget = 60
    while i < len(ops) and budget > 0:
        trial = ops[:i] + ops[i + 1:]
        budget -= 1
        f = oracle(_history(trial), ctx) if trial else None
        if f:
            ops, failure = trial, f
        else:
            i += 1
    return _history(ops), failure
