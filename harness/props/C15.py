"""C15 - queries are pure and caches are semantically invisible.

Decided by Barril/Props/C15.lean over the session model of Barril/Model/RegCache.lean (registry of
Model/Reg.lean + `_category_unit_valid` + `quantities_cache`; an accepted registration empties both
tables): cache invariant preserved by every step, `refinement` (the answer in any reachable state is
the answer of a freshly built database over the same registry), `query_pure` (a query never changes the
registry), hence warm = fresh for every history.  Tie: interleavings of registrations, queries and
failing operations on a private `UnitDatabase()`; per step the outcome and "did the registry change"
are compared with the model, at the end both memo tables."""
import itertools

import _reg_common as rc
import C14 as reg

ID = "C15"
LEAN_MODULES = ["Barril.Props.C15"]
DRIVERS = ["drv_reg"]
DRIVER_EXE = "drv_reg"
RULE = ("interleavings of registrations (accepted and rejected), read-only operations (CheckCategoryUnit, Scalar "
        "creation with unit+category / unit only / category only, Convert, IsValid, object-level GetValidUnits, +, "
        "+/- on derived operands (asked repeatedly), products/quotients and ObtainQuantity(OrderedDict)/CreateDerived in both composition orders, the registry getters) and failing lookups on a private UnitDatabase(): bounded-exhaustive over a 31-operation "
        "alphabet (incl. a category registered with its own valid-units list that is not in sorted order, followed by failing lookups through it)  after a 2-, 4- or 5-call prefix to depth 3 (quick) / 4 (thorough), random interleavings of <= 30 steps over "
        "the name pools of C14; every step's outcome and registry-changed flag and the final memo tables are "
        "compared; distinct = distinct history; non-trivial = a query follows a registration that follows a query; "
        "plus value-bearing arithmetic on derived operands as expression trees (products, quotients, sums, differences; the same ordered "
        "unit pair with exponents 2, 3, -3, 4 asked in every order to depth 3 (quick) / 4 (thorough) over a 13-operation alphabet, and random): "
        "the model takes it as an uninterpreted function of the registry, the warm answer is compared with the answer of a database "
        "freshly built from the same registrations; plus families of 2-3 private databases alive at the same time that share names but "
        "differ in units (every pair of questions addressed to either database with no registration in between, and random interleavings); "
        "plus WHICH exception a failing query raises (the name of its class, never its text): the model takes it as an uninterpreted "
        "function of (registry, query), for every failing query step the class raised after the history is compared with the class a "
        "database freshly built from the same registrations raises; failing (category, unit) questions (category not registered, unit of "
        "another quantity type, unknown unit, legacy spelling) asked two and three times in a row, again through each of 10 entry points "
        "(CheckCategoryUnit, Scalar/ObtainQuantity, ObtainQuantity(OrderedDict), IsValid, CheckValueForCategory, GetValidUnits, GetValue, "
        "+, *, + on derived operands), after unrelated questions, after a rejected and after an accepted registration, and random")
EXHAUSTIVE = {"quick": False, "thorough": False}
ASSUMPTIONS = reg.ASSUMPTIONS + ["a query is a closed expression over plain data (value objects created before a "
                                 "registration are snapshots: C07)",
                                 "the effect of an arithmetic expression on the memo tables is not modelled (the final tables are "
                                 "compared as 'every entry the model has is there' for histories with such expressions); their "
                                 "operand units are never legacy spellings"]

PREFIX = [reg._base("length", "m"), reg._base("time", "s")]
ALPHABET = [
    reg._unit("length", "cm"),
    reg._unit("length", "lbmol", dc="depth"),
    reg._cat("length", "length"),
    reg._cat("depth", "length", valid_units=["m"]),
    reg._cat("depth", "time", override=True),
    reg._cat("depth", "length", min_value=0.0, max_value=10.0, default_value=5.0, override=True),
    reg._cat("depth", "nope"),
    reg._unit("time", "cm"),
    dict(q="check", c="depth", u="cm"),
    dict(q="create", c="depth", u="cm"),
    dict(q="create", c="depth", u="lbmole"),
    dict(q="createU", u="cm"),
    dict(q="createU", u="lbmole"),
    dict(q="createC", c="depth"),
    dict(q="objValidUnits", c="depth", u="cm"),
    dict(q="validUnits", c="depth"),
    dict(q="isValid", c="depth", u="cm", x=2000.0),
    dict(q="convert", cq="depth", u="cm", v="m", x=250.0),
    dict(q="add", c1="depth", u1="cm", c2="length", u2="m", x=1.5, y=2.0),
    dict(q="create", c="length", u="s"),
    # the same composition in both orders (the derived cache key keeps the order of the request)
    dict(q="mul", c1="depth", u1="m", c2="length", u2="m", x=2.0, y=3.0),
    dict(q="mul", c1="length", u1="m", c2="depth", u2="m", x=3.0, y=2.0),
    dict(q="derived", ents=[["depth", "m", 1], ["length", "cm", -1]]),
    dict(q="derived", ents=[["length", "cm", -1], ["depth", "m", 1]]),
    dict(q="div", c1="depth", u1="cm", c2="length", u2="m", x=1.5, y=2.0),
    # + and - whose first operand is a derived quantity with two categories of one quantity type in different
    # units (the matching rewrites units on copies of the composing maps; asked repeatedly inside one history)
    dict(q="sumd", f="add", ents=[["length", "m", 1], ["depth", "cm", 1]], ents2=[["length", "m", 1], ["depth", "m", 1]], x=1.0, y=2.0),
    dict(q="sumd", f="sub", ents=[["length", "m", 1], ["depth", "cm", 1]], ents2=[["length", "m", 1], ["depth", "m", 1]], x=5.0, y=1.0),
    # the "all of them" forms (they read every quantity type's list), then a question about one quantity type
    dict(q="allUnits"),
    dict(q="allUnitNames"),
    dict(q="units", qt="length"),
    # a category with its OWN valid-units list that is not in sorted order ('cm' < 'm'): lists reported by the database
    # are ordered data, and a failing lookup through such a category (create depth/lbmole, check depth/cm before cm is
    # registered, create length/s) must leave the list as it was registered
    reg._cat("depth", "length", valid_units=["m", "cm"], override=True),
]
N_CORE = 25   # the operations used at the deepest level of the thorough tier (the rest need the longer prefixes)


LABEL = "bbl-ish"   # a free-text label of an 'Unknown' quantity, never registered as a unit
PREFIX_U = [reg._base("length", "m"), reg._base("Unknown", "<unknown>"), reg._cat("Unknown", "Unknown")]
ALPHABET_U = [
    dict(q="convert", cq="Unknown", u="<unknown>", v=LABEL, x=3.5),
    dict(q="getValue", c="Unknown", u="<unknown>", v=LABEL, x=3.5),
    dict(q="info", qt="Unknown", u=LABEL, fu=True),
    dict(q="info", qt="Unknown", u=LABEL, fu=False),
    dict(q="quantityType", u=LABEL),
    dict(q="defaultCategory", u=LABEL),
    dict(q="check", c="Unknown", u=LABEL),
    dict(q="checkQtUnit", qt="Unknown", u=LABEL),
    dict(q="createU", u=LABEL),
    dict(q="create", c="Unknown", u=LABEL),
    dict(q="unitName", qt="Unknown", u=LABEL),
    dict(q="allUnits"),
    dict(q="quantityTypes"),
    dict(q="categories"),
    dict(q="findSimilar", u="BBL"),
    dict(q="checkValueFor", c="Unknown", u=LABEL, x=1.0),
    reg._unit("length", LABEL),
    reg._unit("Unknown", "cm"),
]


def _exhaustive_u(depth):
    for d in range(1, depth + 1):
        for idx in itertools.product(range(len(ALPHABET_U)), repeat=d):
            yield _history(PREFIX_U + [ALPHABET_U[i] for i in idx], "exhaustive-unknown")


def _history(ops, tag="h"):
    return dict(op="chist", ops=[rc.enc_cop(o) for o in ops], _t=dict(ops=ops, tag=tag))


def _family(ops, n, tag="family"):
    """an interleaved history on `n` private databases alive at the same time; every step carries `db`"""
    return dict(op="chistN", n=n, ops=[dict(rc.enc_cop(o), db=o["db"]) for o in ops], _t=dict(ops=ops, n=n, tag=tag))


# private registries that share quantity-type and category names but differ in what they hold
VARIANTS = {
    "A": [reg._base("length", "m"), reg._unit("length", "km"), reg._cat("length", "length"),
          reg._cat("depth", "length", valid_units=["m", "km"])],
    "B": [reg._base("length", "m"), reg._unit("length", "cm"), reg._cat("length", "length"), reg._cat("depth", "length")],
    "C": [reg._base("time", "s"), reg._unit("time", "min"), reg._cat("length", "time"), reg._cat("time", "time")],
    "D": [reg._base("length", "m"), reg._unit("length", "cm"), reg._unit("length", "km"),
          reg._cat("depth", "length", min_value=0.0, max_value=10.0, valid_units=["km", "cm"]), reg._cat("length", "length")],
}
FAMILY_Q = [dict(q="create", c="length", u="km"), dict(q="create", c="length", u="cm"), dict(q="check", c="length", u="km"),
            dict(q="check", c="depth", u="cm"), dict(q="createU", u="km"), dict(q="isValid", c="depth", u="km", x=5.0),
            dict(q="objValidUnits", c="depth", u="cm")]


def _interleave(rng, lists):
    """the lists merged into one, each keeping its order (alternating when there is no rng)"""
    pos, out = [0] * len(lists), []
    while any(p < len(l) for p, l in zip(pos, lists)):
        live = [i for i, l in enumerate(lists) if pos[i] < len(l)]
        i = rng.choice(live) if rng else min(live, key=lambda j: (pos[j], j))
        out.append(dict(lists[i][pos[i]], db=i))
        pos[i] += 1
    return out


def _family_cases(ctx, salt, depth, n_random):
    """two (or three) private databases used alternately: (a) both registered completely, then every sequence of
    `depth` questions, each addressed to either database, with NO registration in between; (b) random interleavings of
    registrations and questions"""
    alpha = [dict(q, db=i) for q in FAMILY_Q for i in (0, 1)]
    for va, vb in (("A", "B"), ("B", "C")):
        pre = _interleave(None, [VARIANTS[va], VARIANTS[vb]])
        for d in range(2, depth + 1):
            for idx in itertools.product(range(len(alpha)), repeat=d):
                if len({alpha[i]["db"] for i in idx}) == 2:
                    yield _family(pre + [alpha[i] for i in idx], 2, "family-exhaustive")
    rng = ctx.fresh_rng("C15f" + salt)
    units = ["m", "cm", "km", "s", "min"]
    for _ in range(n_random):
        n = rng.choice([2, 2, 3])
        names = [rng.choice(sorted(VARIANTS)) for _ in range(n)]
        ops = _interleave(rng, [[o for o in VARIANTS[v] if rng.random() < 0.9] for v in names])
        for _ in range(rng.randint(3, 12)):
            i = rng.randrange(n)
            r = rng.random()
            if r < 0.12:
                ops.append(dict(reg._rnd_op_n(rng), db=i))
            elif r < 0.2:
                ops.append(dict(rng.choice(VARIANTS[rng.choice(sorted(VARIANTS))]), db=i))
            elif r < 0.3:
                ops.append(dict(_arith(_rnd_expr(rng)), db=i))
            elif r < 0.65:
                ops.append(dict(rng.choice(FAMILY_Q), db=i))
            else:
                ops.append(dict(_rnd_query(rng, units, ["length", "depth", "time"]), db=i))
        yield _family(ops, n, "family-random")


RICH = PREFIX + [reg._unit("length", "cm"), reg._unit("length", "lbmol", dc="depth"), reg._unit("time", "min"),
                 reg._cat("length", "length"), reg._cat("depth", "length", min_value=0.0, max_value=10.0),
                 reg._cat("time", "time", valid_units=["min"]),
                 reg._cat("c per d", "length", valid_units=["m", "lbmol", "cm"])]   # own list, not sorted
PREFIX2 = PREFIX + [reg._unit("length", "cm"), reg._cat("depth", "length")]
PREFIX3 = PREFIX2 + [reg._cat("length", "length")]


def _rnd_ents(rng, cat, unit):
    ents, seen = [], set()
    for _ in range(rng.choice([1, 2, 2, 2, 3])):
        c = cat()
        if c not in seen:
            seen.add(c)
            ents.append([c, unit(), rng.choice([1, 1, -1, 2, -2])])
    return ents


def _rnd_sumd(rng, cat, unit):
    """two operands over the same categories (so that the dimensions can agree), units drawn independently"""
    cs = []
    for _ in range(rng.choice([1, 2, 2, 3])):
        c = cat()
        if c not in cs:
            cs.append(c)
    exps = [rng.choice([1, 1, 1, 2, -1]) for _ in cs]
    e1 = [[c, unit(), e] for c, e in zip(cs, exps)]
    e2 = [[c, unit(), e] for c, e in zip(cs, exps)]
    if rng.random() < 0.3:
        e2.reverse()
    return dict(q="sumd", f=rng.choice(["add", "sub"]), ents=e1, ents2=e2, x=rng.choice([1.0, 5.0, -2.5]), y=rng.choice([2.0, 1.0]))


def _swapped(op):
    """the same composition asked for in the opposite order"""
    if op.get("q") in ("mul",):
        return dict(op, c1=op["c2"], u1=op["u2"], c2=op["c1"], u2=op["u1"], x=op["y"], y=op["x"])
    if op.get("q") in ("derived", "createDerived"):
        return dict(op, ents=list(reversed(op["ents"])))
    return dict(op)


def _rnd_query(rng, units=(), cats=(), extra=False):
    types = reg.TYPES + ["Unknown"]
    syms = reg.SYMS + ["Mcf", "1000ft3", "<unknown>", "degC", "km", LABEL]
    allcats = reg.CATS + ["Unknown", "nope"]

    def cat():
        return rng.choice(cats) if cats and rng.random() < 0.75 else rng.choice(allcats)

    def unit():
        return rng.choice(units) if units and rng.random() < 0.75 else rng.choice(syms)

    c, u, v = cat(), unit(), unit()
    if u == "lbmol" and rng.random() < 0.3:
        u = "lbmole"
    if extra and rng.random() < 0.3:
        # asked on the real code only (failing-input search)
        return rng.choice([dict(q="isValidU", u=u, x=rng.choice([0.0, 3.0, 700.0, -2.0])), dict(q="infoU", u=u)])
    if rng.random() < 0.25:
        qt = rng.choice(types)
        return rng.choice([
            dict(q="allUnits"), dict(q="allUnits"), dict(q="allUnitNames"), dict(q="unitNames", qt=qt),
            dict(q="quantityTypes"), dict(q="checkQuantityType", qt=qt), dict(q="categories"),
            dict(q="isValidCategory", c=c), dict(q="unitName", qt=rng.choice([qt, c]), u=u),
            dict(q="checkQtUnit", qt=rng.choice([qt, c]), u=u), dict(q="info", qt=rng.choice([qt, c]), u=u, fu=rng.random() < 0.6),
            dict(q="getValue", c=c, u=u, v=v, x=rng.choice([1.0, -3.5, 120.0])),
            dict(q="getValue", c="Unknown", u="<unknown>", v=rng.choice([LABEL, v]), x=3.5),
            dict(q="convert", cq="Unknown", u="<unknown>", v=rng.choice([LABEL, v]), x=3.5),
        ])
    return rng.choice([
        dict(q="check", c=c, u=u), dict(q="check", c=c, u=u),
        dict(q="create", c=c, u=u), dict(q="create", c=c, u=u),
        dict(q="createU", u=u), dict(q="createU", u=u),
        dict(q="createC", c=c),
        dict(q="convert", cq=rng.choice([c, c, rng.choice(types)]), u=u, v=v, x=rng.choice([1.0, -3.5, 0.0, 120.0])),
        dict(q="objValidUnits", c=c, u=u), dict(q="objValidUnits", c=c, u=u),
        dict(q="isValid", c=c, u=u, x=rng.choice([0.0, 3.0, 700.0, -2.0])),
        dict(q="add", c1=c, u1=u, c2=cat(), u2=v, x=1.5, y=2.0),
        dict(q=rng.choice(["mul", "div"]), c1=c, u1=u, c2=cat(), u2=v, x=1.5, y=rng.choice([2.0, 2.0, 0.0])),
        dict(q=rng.choice(["mul", "div"]), c1=c, u1=u, c2=cat(), u2=v, x=-3.0, y=4.0),
        dict(q=rng.choice(["derived", "createDerived"]), ents=_rnd_ents(rng, cat, unit)),
        dict(q="sumd", f=rng.choice(["add", "sub"]), ents=_rnd_ents(rng, cat, unit), ents2=_rnd_ents(rng, cat, unit),
             x=rng.choice([1.0, 5.0, -2.5]), y=rng.choice([2.0, 1.0])),
        _rnd_sumd(rng, cat, unit),
        dict(q="validUnits", c=c), dict(q="baseUnit", qt=rng.choice(types)), dict(q="units", qt=rng.choice(types)),
        dict(q="defaultCategory", u=u), dict(q="quantityType", u=u), dict(q="catInfo", c=c),
        dict(q="defaultValue", c=c), dict(q="defaultUnit", c=c),
        dict(q="findUnitCase", c=c, u=rng.choice([u.upper(), u.title(), u])), dict(q="findSimilar", u=rng.choice([u, u[:1], u.upper(), "l/m"])),
        dict(q="checkValueFor", c=c, u=u, x=rng.choice([0.0, 3.0, 700.0, -2.0])),
    ])


# ------------------------------------------------------------------------------------ value-bearing arithmetic
def _sc(c, u, x):
    return ["s", c, u, x]


def _pw(leaf, n):
    """leaf ** n written as a product (a derived operand carrying the leaf's unit with exponent n)"""
    e = leaf
    for _ in range(n - 1):
        e = ["mul", e, leaf]
    return e


def _arith(e):
    return dict(q="arith", e=e)


PREFIX_A = [reg._base("length", "m"), reg._unit("length", "cm"), reg._unit("length", "km"), reg._base("time", "s"),
            reg._unit("time", "min"), reg._cat("length", "length"), reg._cat("depth", "length"), reg._cat("time", "time")]
_M2, _CM3, _KM2, _MIN2 = _sc("length", "m", 2.0), _sc("length", "cm", 3.0), _sc("length", "km", 3.0), _sc("time", "min", 4.0)
ALPHABET_A = [
    # the same ordered unit pair (cm -> m) with exponents 2, 3, -3, asked in every order (the answer to each must be the
    # one a fresh database gives); the model takes this arithmetic as an uninterpreted function of the registry
    _arith(["mul", _M2, _pw(_CM3, 2)]),
    _arith(["mul", _M2, _pw(_CM3, 3)]),
    _arith(["div", _M2, _pw(_CM3, 3)]),
    _arith(["mul", _pw(_CM3, 2), _M2]),                                   # the pair the other way round (m -> cm)
    _arith(["add", _pw(_M2, 2), _pw(_CM3, 2)]),                           # sums of derived operands
    _arith(["sub", _pw(_M2, 3), _pw(_CM3, 3)]),
    _arith(["mul", _sc("depth", "m", 2.0), _pw(_sc("length", "km", 3.0), 2)]),
    _arith(["div", ["div", _sc("length", "m", 1.0), _sc("time", "s", 2.0)], _pw(_MIN2, 2)]),
    _arith(["mul", ["u", "m", 2.0], _pw(["u", "cm", 3.0], 2)]),             # Scalar(x, unit): default category
    # the same class where the model predicts the value itself (+/- of derived operands through _ConvertMatchingExp)
    dict(q="sumd", f="add", ents=[["length", "m", 2]], ents2=[["length", "cm", 2]], x=1.0, y=2.0),
    dict(q="sumd", f="sub", ents=[["length", "m", 3]], ents2=[["length", "cm", 3]], x=1.0, y=2.0),
    dict(q="sumd", f="add", ents=[["length", "m", -2]], ents2=[["length", "cm", -2]], x=1.0, y=2.0),
    reg._cat("depth", "length", valid_units=["m", "km"], override=True),   # a registration in between must not matter
]


def _exhaustive_a(depth):
    for d in range(1, depth + 1):
        for idx in itertools.product(range(len(ALPHABET_A)), repeat=d):
            yield _history(PREFIX_A + [ALPHABET_A[i] for i in idx], "exhaustive-arith")


_A_UNITS = {"length": ["m", "cm", "km", "mm"], "time": ["s", "min", "h"]}   # never a legacy spelling (see ASSUMPTIONS)
_A_CATS = {"length": ["length", "depth", "c per d"], "time": ["time"]}


def _rnd_leaf(rng, qt=None, unit=None):
    qt = qt or rng.choice(["length", "length", "time"])
    u = unit or rng.choice(_A_UNITS[qt])
    x = rng.choice([2.0, 3.0, 0.5, -1.5, 4.0])
    if rng.random() < 0.15:
        return ["u", u, x]
    return _sc(rng.choice(_A_CATS[qt]), u, x)


def _rnd_expr(rng, pair=None):
    """products / quotients / sums of derived operands; `pair` = (quantity type, unit a, unit b) to be met again with
    other exponents inside the same history"""
    qt, ua, ub = pair or (None, None, None)
    if qt is None:
        qt = rng.choice(["length", "length", "time"])
        ua, ub = rng.choice(_A_UNITS[qt]), rng.choice(_A_UNITS[qt])
    n = rng.choice([1, 2, 2, 3, 3, 4])
    a, b = _rnd_leaf(rng, qt, ua), _pw(_rnd_leaf(rng, qt, ub), n)
    r = rng.random()
    if r < 0.35:
        e = [rng.choice(["mul", "div"]), a, b]
    elif r < 0.5:
        e = [rng.choice(["mul", "div"]), b, a]
    elif r < 0.75:
        e = [rng.choice(["add", "sub"]), _pw(_rnd_leaf(rng, qt, ua), n), b]
    elif r < 0.9:
        other = _rnd_leaf(rng)
        e = [rng.choice(["mul", "div"]), [rng.choice(["mul", "div"]), a, other], b]
    else:
        e = [rng.choice(["mul", "div", "add", "sub"]), _rnd_expr(rng, pair) if rng.random() < 0.5 else a, b]
    return e


def _rnd_sumd_pow(rng, pair):
    qt, ua, ub = pair
    n = rng.choice([2, 3, -2, -3, 2, 3])
    c1, c2 = rng.choice(_A_CATS[qt]), rng.choice(_A_CATS[qt])
    return dict(q="sumd", f=rng.choice(["add", "sub"]), ents=[[c1, ua, n]], ents2=[[c2, ub, n]], x=rng.choice([1.0, 5.0, -2.5]),
                y=rng.choice([2.0, 1.0]))


def _arith_random(ctx, salt, n):
    rng = ctx.fresh_rng("C15a" + salt)
    extra = [reg._unit("length", "mm"), reg._unit("time", "h"), reg._cat("c per d", "length", valid_units=["m", "mm", "cm"])]
    for _ in range(n):
        ops = list(PREFIX_A) + [o for o in extra if rng.random() < 0.6]
        qt = rng.choice(["length", "length", "time"])
        pairs = [(qt, rng.choice(_A_UNITS[qt]), rng.choice(_A_UNITS[qt])) for _ in range(2)]
        for _ in range(rng.randint(3, 10)):
            r = rng.random()
            if r < 0.6:
                ops.append(_arith(_rnd_expr(rng, rng.choice(pairs + [None]))))
            elif r < 0.75:
                ops.append(_rnd_sumd_pow(rng, rng.choice(pairs)))
            elif r < 0.85 and len(ops) > len(PREFIX_A):
                ops.append(dict(ops[rng.randrange(len(PREFIX_A), len(ops))]))       # asked again
            elif r < 0.93:
                ops.append(_rnd_query(rng, [u for us in _A_UNITS.values() for u in us], ["length", "depth", "time"]))
            else:
                ops.append(rng.choice(extra + [reg._cat("depth", "length", override=True, min_value=0.0)]))
        yield _history(ops, "random-arith")


def _vu_fragment(rng, ops):
    """a category registered with its own valid-units list: a failing lookup/creation through it, then every place
    where that list is reported (database, CategoryInfo, object level, a category copied from it)"""
    own = [o["c"] for o in ops if "q" not in o and o["k"] == "cat" and isinstance(o["c"], str) and o["kw"].get("valid_units")]
    if not own:
        c = rng.choice(["depth", "c per d"])
        vu = rng.choice([["m", "cm"], ["m", "lbmol", "cm"], ["m", "km", "cm"], ["cm", "m"], ["s", "min"], ["s", "h", "min"]])
        first = [reg._cat(c, "time" if "s" in vu else "length", valid_units=vu, override=True)]
    else:
        c, first = rng.choice(own), []
    bad = rng.choice(["s", "furlong", "min", "lbmole", LABEL, "m", "km"])
    fail = rng.choice([dict(q="check", c=c, u=bad), dict(q="create", c=c, u=bad), dict(q="isValid", c=c, u=bad, x=1.0),
                       dict(q="objValidUnits", c=c, u=bad), dict(q="getValue", c=c, u=bad, v="m", x=1.0),
                       dict(q="add", c1=c, u1=bad, c2=c, u2="m", x=1.0, y=2.0)])
    new = rng.choice(["c per d", "x cat", "depth"])
    tail = [dict(q="validUnits", c=c), dict(q="catInfo", c=c), dict(q="objValidUnits", c=c, u=rng.choice(["m", "cm", "s"])),
            reg._cat(new, from_category=c, override=rng.random() < 0.7), dict(q="validUnits", c=new), dict(q="catInfo", c=new)]
    return first + [fail] + [t for t in tail if rng.random() < 0.7]


def _random(ctx, salt, n, maxlen, extra=False):
    rng = ctx.fresh_rng("C15" + salt)
    for _ in range(n):
        ops = []
        r = rng.random()
        if r < 0.55:
            ops += [o for o in RICH if rng.random() < 0.8]
        elif r < 0.75:
            ops += PREFIX[: rng.randint(1, 2)]
        for _ in range(rng.randint(2, maxlen)):
            units = [o["unit"] for o in ops if "q" not in o and o["k"] in ("base", "unit") and isinstance(o["unit"], str)]
            cats = [o["c"] for o in ops if "q" not in o and o["k"] == "cat" and isinstance(o["c"], str)]
            r = rng.random()
            if r < 0.3:
                ops.append(reg._rnd_op_n(rng))
            elif r > 0.96:
                ops += _vu_fragment(rng, ops)
            elif r < 0.4 and ops:
                prev = ops[rng.randrange(len(ops))]                  # repeat an earlier step (memo / cache path),
                ops.append(_swapped(prev) if rng.random() < 0.6 else dict(prev))   # compositions also in the other order
            else:
                ops.append(_rnd_query(rng, units, cats, extra))
        yield _history(ops, "random")


# ------------------------------------------------------------------------------------ failing questions asked again
# An answer that is an exception includes WHICH exception (the name of its class; never its text): the model takes it as
# an uninterpreted function of (registry, query) - `error_detail_ignores_caches` - and the check compares the class the
# warm database raises with the class a database freshly built from the same registrations raises.  A negative verdict
# is memoised, so the interesting histories ask the same failing question again: at once, after unrelated questions,
# through another entry point, and after a registration (which empties the memo tables).
PREFIX_F = [reg._base("length", "m"), reg._unit("length", "cm"), reg._base("time", "s"), reg._cat("length", "length"),
            reg._cat("depth", "length", valid_units=["m"]), reg._cat("time", "time")]
FAIL_PAIRS = [("porosity", "m"),      # a category that is not registered, a registered unit
              ("depth", "s"),         # a registered category, a unit of another quantity type
              ("depth", "furlong"),   # a registered category, a unit nobody registered
              ("nope", "furlong"),    # neither is known
              ("time", "lbmole")]     # a legacy spelling of a unit that is not registered either


def _fail_entry_points(c, u):
    """the same (category, unit) question through every entry point that validates the pair"""
    return [dict(q="check", c=c, u=u),                                  # db.CheckCategoryUnit
            dict(q="create", c=c, u=u),                                 # Scalar(1.0, u, c) -> ObtainQuantity(u, c)
            dict(q="derived", ents=[[c, u, 1]]),                        # ObtainQuantity(OrderedDict): the simple case
            dict(q="isValid", c=c, u=u, x=1.0),                         # Scalar(x, u, c).IsValid()
            dict(q="checkValueFor", c=c, u=u, x=1.0),                   # db.CheckValueForCategory
            dict(q="objValidUnits", c=c, u=u),
            dict(q="getValue", c=c, u=u, v="m", x=1.0),
            dict(q="add", c1="length", u1="m", c2=c, u2=u, x=1.0, y=2.0),
            dict(q="mul", c1=c, u1=u, c2="length", u2="m", x=1.0, y=2.0),
            dict(q="sumd", f="add", ents=[[c, u, 1], ["length", "m", 1]], ents2=[["length", "m", 1], [c, u, 1]], x=1.0, y=2.0)]


FAIL_OTHER = [dict(q="createU", u="furlong"), dict(q="createC", c="porosity"), dict(q="convert", cq="porosity", u="m", v="cm", x=1.0),
              dict(q="convert", cq="depth", u="m", v="s", x=1.0), dict(q="catInfo", c="porosity"), dict(q="validUnits", c="nope"),
              dict(q="checkQtUnit", qt="length", u="s"), dict(q="info", qt="length", u="furlong", fu=False),
              dict(q="unitName", qt="nope", u="m"), dict(q="findUnitCase", c="depth", u="M")]
UNRELATED = [dict(q="check", c="length", u="m"), dict(q="create", c="length", u="cm"), dict(q="allUnits"),
             dict(q="convert", cq="length", u="m", v="cm", x=2.0), dict(q="validUnits", c="depth"),
             reg._cat("depth", "nope"),                                   # a rejected registration: the memo tables stay
             dict(q="createU", u="cm")]
RESETS = [reg._unit("time", "min"), reg._cat("depth", "length", override=True, min_value=0.0)]   # accepted: the tables are emptied


def _failing_again(ctx, salt, n_random):
    for c, u in FAIL_PAIRS:
        eps = _fail_entry_points(c, u)
        for f in eps:
            yield _history(PREFIX_F + [f, f, f], "failing-again")                      # twice (thrice) in a row
            for g in eps:
                if g is not f:
                    yield _history(PREFIX_F + [f, g, f], "failing-again")              # ... and through another entry point
            for o in UNRELATED:
                yield _history(PREFIX_F + [f, o, f], "failing-again")                  # ... after an unrelated question
            for r in RESETS:
                yield _history(PREFIX_F + [f, f, r, f, f], "failing-again")            # ... after a registration
    for f in FAIL_OTHER:
        yield _history(PREFIX_F + [f, f, UNRELATED[0], f, RESETS[0], f, f], "failing-again")
    rng = ctx.fresh_rng("C15fa" + salt)
    every = [f for c, u in FAIL_PAIRS for f in _fail_entry_points(c, u)] + FAIL_OTHER
    for _ in range(n_random):
        ops = [o for o in PREFIX_F if rng.random() < 0.9]
        asked = [rng.choice(every) for _ in range(rng.randint(1, 3))]
        for _ in range(rng.randint(3, 12)):
            r = rng.random()
            if r < 0.55:
                ops.append(dict(rng.choice(asked)))
            elif r < 0.7:
                ops.append(dict(rng.choice(every)))
            elif r < 0.85:
                ops.append(dict(rng.choice(UNRELATED)))
            elif r < 0.93:
                ops.append(dict(rng.choice(RESETS + PREFIX_F)))
            else:
                ops.append(_rnd_query(rng, ["m", "cm", "s"], ["length", "depth", "time", "porosity"]))
        yield _history(ops, "failing-again-random")


def _exhaustive(depth, prefixes=(PREFIX, PREFIX2), n=None):
    for pre in prefixes:
        for d in range(1, depth + 1):
            for idx in itertools.product(range(n or len(ALPHABET)), repeat=d):
                yield _history(pre + [ALPHABET[i] for i in idx], "exhaustive")


def cases(ctx):
    yield from _exhaustive_u(3)
    if ctx.tier == "quick":
        yield from _exhaustive(2, (PREFIX3,))
        yield from _exhaustive(3, (PREFIX,), 30)
        yield from _exhaustive(3, (PREFIX2,))      # (the unsorted valid-units override needs cm, which PREFIX2 registers)
        yield from _random(ctx, "q", 500, 30)
        yield from _exhaustive_a(3)
        yield from _arith_random(ctx, "q", 300)
        yield from _family_cases(ctx, "q", 2, 200)
        yield from _failing_again(ctx, "q", 150)
    else:
        yield from _exhaustive(4, (PREFIX,), N_CORE)
        yield from _exhaustive(3, (PREFIX2, PREFIX3))
        yield from _random(ctx, "t", 6000, 30)
        yield from _exhaustive_a(4)
        yield from _arith_random(ctx, "t", 4000)
        yield from _family_cases(ctx, "t", 3, 3000)
        yield from _failing_again(ctx, "t", 3000)


def model_line(c):
    return {k: v for k, v in c.items() if k != "_t"}


def case_key(c):
    return c["ops"]


def _show(o):
    if o.get("q") == "arith":
        return "arith(%s)" % rc.show_expr(o["e"])
    return ("%s(%s)" % (o["q"], ", ".join("%s=%r" % kv for kv in sorted(o.items()) if kv[0] != "q"))) if "q" in o else reg._show_op(o)


def show(c):
    if c["op"] == "chistN":
        return ["db%d: %s" % (o["db"], _show({k: v for k, v in o.items() if k != "db"})) for o in c["_t"]["ops"][:14]]
    return [_show(o) for o in c["_t"]["ops"][:10]]


def _ckey(e):
    return (e[0] is not None, e[0] or "", e[1], e[2])


def _tables(db):
    memo = sorted([k[0], k[1], bool(v)] for k, v in db._category_unit_valid.items())
    simple = {k: q for k, q in db.quantities_cache.items()
              if len(k) == 3 and isinstance(k[1], str) and (k[0] is None or isinstance(k[0], str))}
    cache = sorted(([k[0], k[1], k[2] is not None, q.GetCategory(), q.GetUnit()] for k, q in simple.items()), key=_ckey)
    # keys of derived quantities: tuples of (category, (unit, exponent)) pairs
    dcache = sorted(([[p[0], p[1][0], int(p[1][1])] if isinstance(p, tuple) and len(p) == 2 else ["<caption>", repr(p), 0]
                      for p in k] for k in db.quantities_cache if k not in simple), key=repr)
    limits = {k: (ci.min_value, ci.max_value) for k, ci in db.categories_to_quantity_types.items()}
    return memo, cache, limits, dcache


def _fresh_answer(regs, op):
    """the operation on a database freshly built from the given registrations (the meaning the model gives to an
    arithmetic question: a function of the registry only)"""
    from barril.units.unit_database import UnitDatabase

    fresh = reg._new_db()
    UnitDatabase.PushSingleton(fresh)
    try:
        for r in regs:
            rc.apply_reg(fresh, r)
        return rc.ask(fresh, op, detail=True) if "q" in op else rc.apply_reg(fresh, op)
    finally:
        UnitDatabase.PopSingleton()


_FRESH_FAILURES = {}


def _fresh_failure(regs, op):
    """`_fresh_answer` for a failing query of the correspondence leg.  Each evaluation builds its own new database, so
    the answer is a function of (registrations, query): evaluated once per distinct pair (the exhaustive families ask the
    same failing question after the same registrations many thousand times)."""
    key = repr((regs, op))
    if key not in _FRESH_FAILURES:
        if len(_FRESH_FAILURES) > 200000:
            _FRESH_FAILURES.clear()
        _FRESH_FAILURES[key] = _fresh_answer(regs, op)
    return _FRESH_FAILURES[key]


def _run(ops, flags=True):
    """The history on a fresh private database: per step the outcome and whether the registry changed."""
    outs, tables = _run_n([dict(o, db=0) for o in ops], 1, flags)
    return (outs,) + tables[0]


def _run_n(ops, n, flags=True):
    """An interleaved history on `n` private databases alive at the same time (every step carries the index `db` of the
    database it is addressed to, which is the current one during the step): per step the outcome, whether the registry
    of that database changed and whether the registry of ANOTHER database changed; at the end the tables of each."""
    from barril.units.unit_database import UnitDatabase

    dbs = [reg._new_db() for _ in range(n)]
    regs = [[] for _ in range(n)]
    outs = []
    for op in ops:
        i = op["db"]
        op = {k: v for k, v in op.items() if k != "db"}
        before = [rc.snapshot(d) for d in dbs] if flags else None
        UnitDatabase.PushSingleton(dbs[i])
        try:
            o = rc.ask(dbs[i], op, detail=True) if "q" in op else rc.apply_reg(dbs[i], op)
        finally:
            UnitDatabase.PopSingleton()
        if flags:
            after = [rc.snapshot(d) for d in dbs]
            o = dict(o, changed=(after[i] != before[i]))
            if n > 1:
                o["others"] = any(after[j] != before[j] for j in range(n) if j != i)
        if op.get("q") == "arith":
            o["fresh"] = _fresh_answer(regs[i], op)
        elif "q" in op and "err" in o:
            # the model's meaning of WHICH exception a failing query raises: what a database freshly built from the
            # registrations accepted so far raises
            o["fresh"] = _fresh_failure(regs[i], op)
        if "q" not in op and "err" not in o:
            regs[i].append(op)
        outs.append(o)
    tables = []
    for d in dbs:
        UnitDatabase.PushSingleton(d)
        try:
            tables.append(_tables(d))
        finally:
            UnitDatabase.PopSingleton()
    return outs, tables


def _count(ctx, ops, outs, name="steps"):
    n = ctx.notes.setdefault(name, {})
    for op, o in zip(ops, outs):
        key = (op["q"] if "q" in op else "Add" + op["k"]) + ("/" + o["err"] if "err" in o else "/ok")
        n[key] = n.get(key, 0) + 1
        if "cls" in o:
            m = ctx.notes.setdefault("exception classes of failing queries (warm = fresh compared)", {})
            m[o["cls"]] = m.get(o["cls"], 0) + 1


def impl(c, ctx):
    ops = c["_t"]["ops"]
    if c["op"] == "chistN":
        outs, tables = _run_n(ops, c["n"])
        _count(ctx, ops, outs, "steps (several databases)")
        return dict(outs=outs, dbs=[dict(memo=t[0], cache=t[1], limits=t[2], dcache=t[3]) for t in tables])
    outs, memo, cache, limits, dcache = _run(ops)
    _count(ctx, ops, outs)
    return dict(outs=outs, memo=memo, cache=cache, limits=limits, dcache=dcache)


def _agree_steps(ops, iouts, mouts):
    if len(iouts) != len(mouts):
        return "length"
    for i, (op, a, b) in enumerate(zip(ops, iouts, mouts)):
        if op.get("q") == "arith":
            # the model: "the answer of a database built from this registry" (an uninterpreted function of the registry);
            # evaluated on the real code: a new database, the registrations accepted so far, the same expression
            if b.get("ok") != {"fresh": True}:
                return "step %d %s: model answers %s" % (i, _show(op), b)
            warm = {k: v for k, v in a.items() if k not in ("changed", "others", "fresh")}
            if warm != a["fresh"] and not _near(warm, a["fresh"]):
                return "step %d %s: answer after the history %s, on a fresh database built from the same registrations %s" % (
                    i, _show(op), warm, a["fresh"])
            why = None
        elif "q" in op:
            why = rc.cmp_answer(op, a, b, None)
            if not why and "err" in a:
                # WHICH exception: the model says "the one a database built from this registry raises" (an uninterpreted
                # function of (registry, query): `error_detail_ignores_caches`); evaluated on the real code
                if b.get("detail") != "fresh":
                    why = "a failing query: model gives no failure detail (%s)" % b
                elif a.get("cls") != a["fresh"].get("cls") or a["err"] != a["fresh"].get("err"):
                    why = "raises %s after the history, %s on a fresh database built from the same registrations" % (
                        a.get("cls"), a["fresh"].get("cls") or a["fresh"])
            elif not why and b.get("detail") is not None:
                why = "model reports a failure detail for an answer that is not a failure"
        else:
            why = rc.cmp_reg_out(a, b)
        if why:
            return "step %d %s: %s" % (i, _show(op), why)
        if a["changed"] != b.get("changed"):
            return "step %d %s: registry changed impl=%s model=%s" % (i, _show(op), a["changed"], b.get("changed"))
        if "others" in a and a["others"] != b.get("others"):
            return "step %d %s: the registry of ANOTHER database changed impl=%s model=%s" % (i, _show(op), a["others"], b.get("others"))
    return None


def _agree_tables(io, mo, loose):
    """both memo tables at the end; `loose` (the history asked arithmetic questions, whose effect on the tables the
    model does not follow): every entry the model has must be there"""
    def cmp(what, real, model):
        if loose:
            # (an entry under the key (None, unit) is only written when the resolved key (category, unit) was not there
            # yet: an arithmetic expression may have created that one first)
            missing = [e for e in model if e not in real
                       and not (len(e) == 5 and e[0] is None and [e[3], e[4], e[2], e[3], e[4]] in real)]
            return "%s after the history lacks %s (impl=%s)" % (what, missing[:6], real[:8]) if missing else None
        return None if real == model else "%s after the history: impl=%s model=%s" % (what, real[:8], model[:8])

    mm = sorted([rc.unsym(int(e[0])), rc.unsym(int(e[1])), e[2]] for e in mo["memo"])
    mc = sorted(([None if e[0] is None else rc.unsym(int(e[0])), rc.unsym(int(e[1])), e[2], rc.unsym(int(e[3])),
                  rc.unsym(int(e[4]))] for e in mo["cache"]), key=_ckey)
    md = sorted(([[rc.unsym(int(c)), rc.unsym(int(u)), int(e)] for c, u, e in k] for k in mo.get("dcache", [])), key=repr)
    return (cmp("_category_unit_valid", io["memo"], mm) or cmp("quantities_cache", io["cache"], mc)
            or cmp("derived keys of quantities_cache", io.get("dcache", []), md))


def agree(c, io, mo, ctx):
    ops = c["_t"]["ops"]
    why = _agree_steps(ops, io["outs"], mo.get("outs", []))
    if why:
        return why
    if c["op"] == "chistN":
        if len(mo.get("dbs", [])) != len(io["dbs"]):
            return "number of databases"
        for i, (a, b) in enumerate(zip(io["dbs"], mo["dbs"])):
            why = _agree_tables(a, b, any(o.get("q") == "arith" for o in ops if o["db"] == i))
            if why:
                return "database %d: %s" % (i, why)
        return None
    return _agree_tables(io, mo, any(o.get("q") == "arith" for o in ops))


def nontrivial(c, io):
    ops = c["_t"]["ops"]
    if c["op"] == "chistN":
        # a question answered in one database after the same question was asked of another one
        seen = {}
        for op in ops:
            if "q" in op:
                key = repr(sorted((k, repr(v)) for k, v in op.items() if k != "db"))
                if seen.setdefault(key, op["db"]) != op["db"]:
                    return True
        return False
    state = 0
    for op, o in zip(ops, io["outs"]):
        if "q" in op and state in (0, 2):
            state += 1
        elif "q" not in op and "err" not in o and state == 1:
            state = 2
    return state >= 3


# ------------------------------------------------------------------------------------ the property on the real code
def _strip(o):
    return {k: v for k, v in o.items() if k != "changed"}


def _check(ops):
    return _check_n([dict(o, db=0) for o in ops], 1)


def _check_n(ops, n):
    """THE PROPERTY on the real code, for an interleaved history on `n` private databases alive at the same time
    (n = 1: one database): a read-only or failing operation changes nothing any database reports, no operation
    changes what ANOTHER database reports, and every operation answers as on a database freshly built from the
    registrations its own database accepted so far."""
    from barril.units.unit_database import UnitDatabase

    dbs = [reg._new_db() for _ in range(n)]
    regs = [[] for _ in range(n)]
    shown = [("db%d: " % o["db"] if n > 1 else "") + _show({k: v for k, v in o.items() if k != "db"}) for o in ops]
    for step, op in enumerate(ops):
        i = op["db"]
        op = {k: v for k, v in op.items() if k != "db"}
        before = [rc.snapshot(d) for d in dbs]
        UnitDatabase.PushSingleton(dbs[i])
        try:
            o = rc.ask(dbs[i], op, detail=True) if "q" in op else rc.apply_reg(dbs[i], op)
        finally:
            UnitDatabase.PopSingleton()
        after = [rc.snapshot(d) for d in dbs]
        if "q" in op and after[i] != before[i]:
            return dict(clause="a read-only operation changed what the unit database reports", step=step,
                        call=shown[step], history=shown[: step + 1])
        if "q" not in op and "err" in o and after[i] != before[i]:
            return dict(clause="a failing operation changed what the unit database reports", step=step,
                        call=shown[step], error=o["err"], history=shown[: step + 1])
        if any(after[j] != before[j] for j in range(n) if j != i):
            return dict(clause="an operation on one unit database changed what another unit database reports", step=step,
                        call=shown[step], history=shown[: step + 1])
        # the same operation on a fresh database built from the registrations accepted so far
        # (an answer that is an exception includes WHICH exception: `cls`, the name of its class; never its text)
        o2 = _fresh_answer(regs[i], op)
        if o != o2 and not _near(o, o2):
            return dict(clause="an operation answers differently after a history of other operations than on a "
                               "freshly built database", step=step, call=shown[step], warm=o, fresh=o2,
                        history=shown[: step + 1])
        if "q" not in op and "err" not in o:
            regs[i].append(op)
    return None


def _near(a, b):
    try:
        xa, xb = float.fromhex(a["ok"]["x"]), float.fromhex(b["ok"]["x"])
        return {k: v for k, v in a["ok"].items() if k != "x"} == {k: v for k, v in b["ok"].items() if k != "x"} \
            and abs(xa - xb) <= 1e-12 * max(abs(xa), abs(xb), 1.0)
    except Exception:
        return False


def oracle(c, ctx):
    if c["op"] == "chistN":
        return _check_n(c["_t"]["ops"], c["_t"]["n"])
    return _check(c["_t"]["ops"])


ORACLE_ONLY = ("isValidU", "infoU")


def _directed():
    """Sequences for the failing-input search (real code only; they use query kinds the model does not have):
    (a) a unit-only lookup, then an overriding AddCategory with limits, then unit-only questions again;
    (b) a rejected registration that names a quantity type which does not exist yet, then questions about it."""
    pre = [reg._base("length", "m"), reg._unit("length", "cm"), reg._cat("length", "length")]
    firsts = [dict(q="createU", u="m"), dict(q="isValidU", u="m", x=5.0), dict(q="infoU", u="cm"),
              dict(q="add", c1="length", u1="m", c2="length", u2="cm", x=1.0, y=2.0)]
    overrides = [reg._cat("length", "length", override=True, min_value=0.0, max_value=10.0, default_value=1.0),
                 reg._cat("length", "length", override=True, min_value=2.0, default_unit="cm"),
                 reg._cat("length", "length", override=True, valid_units=["cm"], max_value=3.0)]
    lasts = [dict(q="isValidU", u="m", x=-1.0), dict(q="isValidU", u="cm", x=2000.0), dict(q="infoU", u="m"),
             dict(q="infoU", u="cm"), dict(q="createC", c="length"), dict(q="isValid", c="length", u="m", x=-1.0),
             dict(q="createU", u="m"), dict(q="objValidUnits", c="length", u="m")]
    for f in firsts:
        for ov in overrides:
            yield _history(pre + [f, ov] + lasts, "directed")
    pre = [reg._base("length", "m")]
    rejected = [reg._unit("distance", "m"), reg._base("distance", "m"), reg._unit("speed", "knot", fb=rc.NO_X),
                reg._unit("speed", "knot", tb=rc.SYNTAX), reg._unit("speed", "knot", fb=rc.SYNTAX)]
    for rj in rejected:
        qt = rj["qt"]
        qs = [dict(q="quantityTypes"), dict(q="checkQuantityType", qt=qt), dict(q="units", qt=qt),
              dict(q="baseUnit", qt=qt), dict(q="convert", cq=qt, u="m", v="knot", x=1.0)]
        yield _history(pre + [rj] + qs + [reg._cat("c1", qt)], "directed")
        yield _history(pre + qs[:2] + [rj] + qs, "directed")


def search(ctx):
    yield from _directed()
    yield from _failing_again(ctx, "s", 100)
    yield from _exhaustive_a(2)
    yield from _family_cases(ctx, "s", 2, 100)
    yield from _arith_random(ctx, "s", 200)
    yield from _exhaustive_u(3)
    yield from _exhaustive(3)
    yield from _random(ctx, "s", 1500 if ctx.tier == "quick" else 15000, 25, extra=True)


def shrink(case, failure, ctx):
    ops = list(case["_t"]["ops"])
    fam = case["op"] == "chistN"
    n = case["_t"]["n"] if fam else 1
    i, budget = 0, 80
    while i < len(ops) and budget > 0 and len(ops) > 1:
        trial = ops[:i] + ops[i + 1:]
        budget -= 1
        f = _check_n(trial, n) if fam else _check(trial)
        if f and f["clause"] == failure["clause"]:
            ops, failure = trial, f
        else:
            i += 1
    return (_family(ops, n, "shrunk") if fam else _history(ops, "shrunk")), failure


# ------------------------------------------------------------------------------------ known findings (optional)
def _registers_legacy_spelling(ops):
    from barril.units.unit_database import FixUnitIfIsLegacy

    return any("q" not in o and o["k"] in ("base", "unit") and isinstance(o["unit"], str) and FixUnitIfIsLegacy(o["unit"])[0]
               for o in ops)


def matches_known(entry, case, failure):
    """input class `units-registered-under-legacy-spellings`: warm != fresh for Scalar(x, unit) when units were
    registered under spellings that FixUnitIfIsLegacy rewrites (lbmolee / lbmole / lbmol)."""
    if entry.get("matcher", {}).get("class") != "units-registered-under-legacy-spellings":
        return False
    ops = case["_t"]["ops"] if case else entry["replay_case"]["ops"]
    return failure.get("clause", "").startswith("an operation answers differently") and _registers_legacy_spelling(ops)


def replay_finding(entry, ctx):
    f = _check(entry["replay_case"]["ops"])
    return f if f and matches_known(entry, None, f) else None
