"""C15 - queries are pure and caches are semantically invisible.

Decided by Barril/Props/C15.lean over the session model of Barril/Model/RegCache.lean (registry of
Model/Reg.lean + `_category_unit_valid` + `quantities_cache`; an accepted registration empties both
tables): cache invariant preserved by every step, `refinement` (the answer in any reachable state is
the answer of a freshly built database over the same registry), `query_pure` (a query never changes the
registry), hence warm = fresh for every history.  Tie: interleavings of registrations, queries and
failing operations on a private `UnitDatabase()`; per step the outcome and "did the registry change"
are compared with the model, at the end both memo tables."""
import itertools

import _reg_common as rc
import C14 as reg

ID = "C15"
LEAN_MODULES = ["Barril.Props.C15"]
DRIVERS = ["drv_reg"]
DRIVER_EXE = "drv_reg"
RULE = ("interleavings of registrations (accepted and rejected), read-only operations (CheckCategoryUnit, Scalar "
        "creation with unit+category / unit only / category only, Convert, IsValid, object-level GetValidUnits, +, "
        "+/- on derived operands (asked repeatedly), products/quotients and ObtainQuantity(OrderedDict)/CreateDerived in both composition orders, the registry getters) and failing lookups on a private UnitDatabase(): bounded-exhaustive over a 30-operation "
        "alphabet after a 2-, 4- or 5-call prefix to depth 3 (quick) / 4 (thorough), random interleavings of <= 30 steps over "
        "the name pools of C14; every step's outcome and registry-changed flag and the final memo tables are "
        "compared; distinct = distinct history; non-trivial = a query follows a registration that follows a query")
EXHAUSTIVE = {"quick": False, "thorough": False}
ASSUMPTIONS = reg.ASSUMPTIONS + ["a query is a closed expression over plain data (value objects created before a "
                                 "registration are snapshots: C07)"]

PREFIX = [reg._base("length", "m"), reg._base("time", "s")]
ALPHABET = [
    reg._unit("length", "cm"),
    reg._unit("length", "lbmol", dc="depth"),
    reg._cat("length", "length"),
    reg._cat("depth", "length", valid_units=["m"]),
    reg._cat("depth", "time", override=True),
    reg._cat("depth", "length", min_value=0.0, max_value=10.0, default_value=5.0, override=True),
    reg._cat("depth", "nope"),
    reg._unit("time", "cm"),
    dict(q="check", c="depth", u="cm"),
    dict(q="create", c="depth", u="cm"),
    dict(q="create", c="depth", u="lbmole"),
    dict(q="createU", u="cm"),
    dict(q="createU", u="lbmole"),
    dict(q="createC", c="depth"),
    dict(q="objValidUnits", c="depth", u="cm"),
    dict(q="validUnits", c="depth"),
    dict(q="isValid", c="depth", u="cm", x=2000.0),
    dict(q="convert", cq="depth", u="cm", v="m", x=250.0),
    dict(q="add", c1="depth", u1="cm", c2="length", u2="m", x=1.5, y=2.0),
    dict(q="create", c="length", u="s"),
    # the same composition in both orders (the derived cache key keeps the order of the request)
    dict(q="mul", c1="depth", u1="m", c2="length", u2="m", x=2.0, y=3.0),
    dict(q="mul", c1="length", u1="m", c2="depth", u2="m", x=3.0, y=2.0),
    dict(q="derived", ents=[["depth", "m", 1], ["length", "cm", -1]]),
    dict(q="derived", ents=[["length", "cm", -1], ["depth", "m", 1]]),
    dict(q="div", c1="depth", u1="cm", c2="length", u2="m", x=1.5, y=2.0),
    # + and - whose first operand is a derived quantity with two categories of one quantity type in different
    # units (the matching rewrites units on copies of the composing maps; asked repeatedly inside one history)
    dict(q="sumd", f="add", ents=[["length", "m", 1], ["depth", "cm", 1]], ents2=[["length", "m", 1], ["depth", "m", 1]], x=1.0, y=2.0),
    dict(q="sumd", f="sub", ents=[["length", "m", 1], ["depth", "cm", 1]], ents2=[["length", "m", 1], ["depth", "m", 1]], x=5.0, y=1.0),
    # the "all of them" forms (they read every quantity type's list), then a question about one quantity type
    dict(q="allUnits"),
    dict(q="allUnitNames"),
    dict(q="units", qt="length"),
]
N_CORE = 25   # the operations used at the deepest level of the thorough tier (the rest need the longer prefixes)


LABEL = "bbl-ish"   # a free-text label of an 'Unknown' quantity, never registered as a unit
PREFIX_U = [reg._base("length", "m"), reg._base("Unknown", "<unknown>"), reg._cat("Unknown", "Unknown")]
ALPHABET_U = [
    dict(q="convert", cq="Unknown", u="<unknown>", v=LABEL, x=3.5),
    dict(q="getValue", c="Unknown", u="<unknown>", v=LABEL, x=3.5),
    dict(q="info", qt="Unknown", u=LABEL, fu=True),
    dict(q="info", qt="Unknown", u=LABEL, fu=False),
    dict(q="quantityType", u=LABEL),
    dict(q="defaultCategory", u=LABEL),
    dict(q="check", c="Unknown", u=LABEL),
    dict(q="checkQtUnit", qt="Unknown", u=LABEL),
    dict(q="createU", u=LABEL),
    dict(q="create", c="Unknown", u=LABEL),
    dict(q="unitName", qt="Unknown", u=LABEL),
    dict(q="allUnits"),
    dict(q="quantityTypes"),
    dict(q="categories"),
    reg._unit("length", LABEL),
    reg._unit("Unknown", "cm"),
]


def _exhaustive_u(depth):
    for d in range(1, depth + 1):
        for idx in itertools.product(range(len(ALPHABET_U)), repeat=d):
            yield _history(PREFIX_U + [ALPHABET_U[i] for i in idx], "exhaustive-unknown")


def _history(ops, tag="h"):
    return dict(op="chist", ops=[rc.enc_cop(o) for o in ops], _t=dict(ops=ops, tag=tag))


RICH = PREFIX + [reg._unit("length", "cm"), reg._unit("length", "lbmol", dc="depth"), reg._unit("time", "min"),
                 reg._cat("length", "length"), reg._cat("depth", "length", min_value=0.0, max_value=10.0),
                 reg._cat("time", "time", valid_units=["min"])]
PREFIX2 = PREFIX + [reg._unit("length", "cm"), reg._cat("depth", "length")]
PREFIX3 = PREFIX2 + [reg._cat("length", "length")]


def _rnd_ents(rng, cat, unit):
    ents, seen = [], set()
    for _ in range(rng.choice([1, 2, 2, 2, 3])):
        c = cat()
        if c not in seen:
            seen.add(c)
            ents.append([c, unit(), rng.choice([1, 1, -1, 2, -2])])
    return ents


def _rnd_sumd(rng, cat, unit):
    """two operands over the same categories (so that the dimensions can agree), units drawn independently"""
    cs = []
    for _ in range(rng.choice([1, 2, 2, 3])):
        c = cat()
        if c not in cs:
            cs.append(c)
    exps = [rng.choice([1, 1, 1, 2, -1]) for _ in cs]
    e1 = [[c, unit(), e] for c, e in zip(cs, exps)]
    e2 = [[c, unit(), e] for c, e in zip(cs, exps)]
    if rng.random() < 0.3:
        e2.reverse()
    return dict(q="sumd", f=rng.choice(["add", "sub"]), ents=e1, ents2=e2, x=rng.choice([1.0, 5.0, -2.5]), y=rng.choice([2.0, 1.0]))


def _swapped(op):
    """the same composition asked for in the opposite order"""
    if op.get("q") in ("mul",):
        return dict(op, c1=op["c2"], u1=op["u2"], c2=op["c1"], u2=op["u1"], x=op["y"], y=op["x"])
    if op.get("q") in ("derived", "createDerived"):
        return dict(op, ents=list(reversed(op["ents"])))
    return dict(op)


def _rnd_query(rng, units=(), cats=(), extra=False):
    types = reg.TYPES + ["Unknown"]
    syms = reg.SYMS + ["Mcf", "1000ft3", "<unknown>", "degC", "km", LABEL]
    allcats = reg.CATS + ["Unknown", "nope"]

    def cat():
        return rng.choice(cats) if cats and rng.random() < 0.75 else rng.choice(allcats)

    def unit():
        return rng.choice(units) if units and rng.random() < 0.75 else rng.choice(syms)

    c, u, v = cat(), unit(), unit()
    if u == "lbmol" and rng.random() < 0.3:
        u = "lbmole"
    if extra and rng.random() < 0.3:
        # asked on the real code only (failing-input search)
        return rng.choice([dict(q="isValidU", u=u, x=rng.choice([0.0, 3.0, 700.0, -2.0])), dict(q="infoU", u=u)])
    if rng.random() < 0.25:
        qt = rng.choice(types)
        return rng.choice([
            dict(q="allUnits"), dict(q="allUnits"), dict(q="allUnitNames"), dict(q="unitNames", qt=qt),
            dict(q="quantityTypes"), dict(q="checkQuantityType", qt=qt), dict(q="categories"),
            dict(q="isValidCategory", c=c), dict(q="unitName", qt=rng.choice([qt, c]), u=u),
            dict(q="checkQtUnit", qt=rng.choice([qt, c]), u=u), dict(q="info", qt=rng.choice([qt, c]), u=u, fu=rng.random() < 0.6),
            dict(q="getValue", c=c, u=u, v=v, x=rng.choice([1.0, -3.5, 120.0])),
            dict(q="getValue", c="Unknown", u="<unknown>", v=rng.choice([LABEL, v]), x=3.5),
            dict(q="convert", cq="Unknown", u="<unknown>", v=rng.choice([LABEL, v]), x=3.5),
        ])
    return rng.choice([
        dict(q="check", c=c, u=u), dict(q="check", c=c, u=u),
        dict(q="create", c=c, u=u), dict(q="create", c=c, u=u),
        dict(q="createU", u=u), dict(q="createU", u=u),
        dict(q="createC", c=c),
        dict(q="convert", cq=rng.choice([c, c, rng.choice(types)]), u=u, v=v, x=rng.choice([1.0, -3.5, 0.0, 120.0])),
        dict(q="objValidUnits", c=c, u=u), dict(q="objValidUnits", c=c, u=u),
        dict(q="isValid", c=c, u=u, x=rng.choice([0.0, 3.0, 700.0, -2.0])),
        dict(q="add", c1=c, u1=u, c2=cat(), u2=v, x=1.5, y=2.0),
        dict(q=rng.choice(["mul", "div"]), c1=c, u1=u, c2=cat(), u2=v, x=1.5, y=rng.choice([2.0, 2.0, 0.0])),
        dict(q=rng.choice(["mul", "div"]), c1=c, u1=u, c2=cat(), u2=v, x=-3.0, y=4.0),
        dict(q=rng.choice(["derived", "createDerived"]), ents=_rnd_ents(rng, cat, unit)),
        dict(q="sumd", f=rng.choice(["add", "sub"]), ents=_rnd_ents(rng, cat, unit), ents2=_rnd_ents(rng, cat, unit),
             x=rng.choice([1.0, 5.0, -2.5]), y=rng.choice([2.0, 1.0])),
        _rnd_sumd(rng, cat, unit),
        dict(q="validUnits", c=c), dict(q="baseUnit", qt=rng.choice(types)), dict(q="units", qt=rng.choice(types)),
        dict(q="defaultCategory", u=u), dict(q="quantityType", u=u), dict(q="catInfo", c=c),
    ])


def _random(ctx, salt, n, maxlen, extra=False):
    rng = ctx.fresh_rng("C15" + salt)
    for _ in range(n):
        ops = []
        r = rng.random()
        if r < 0.55:
            ops += [o for o in RICH if rng.random() < 0.8]
        elif r < 0.75:
            ops += PREFIX[: rng.randint(1, 2)]
        for _ in range(rng.randint(2, maxlen)):
            units = [o["unit"] for o in ops if "q" not in o and o["k"] in ("base", "unit") and isinstance(o["unit"], str)]
            cats = [o["c"] for o in ops if "q" not in o and o["k"] == "cat" and isinstance(o["c"], str)]
            r = rng.random()
            if r < 0.3:
                ops.append(reg._rnd_op(rng))
            elif r < 0.4 and ops:
                prev = ops[rng.randrange(len(ops))]                  # repeat an earlier step (memo / cache path),
                ops.append(_swapped(prev) if rng.random() < 0.6 else dict(prev))   # compositions also in the other order
            else:
                ops.append(_rnd_query(rng, units, cats, extra))
        yield _history(ops, "random")


def _exhaustive(depth, prefixes=(PREFIX, PREFIX2), n=None):
    for pre in prefixes:
        for d in range(1, depth + 1):
            for idx in itertools.product(range(n or len(ALPHABET)), repeat=d):
                yield _history(pre + [ALPHABET[i] for i in idx], "exhaustive")


def cases(ctx):
    yield from _exhaustive_u(3)
    if ctx.tier == "quick":
        yield from _exhaustive(2, (PREFIX3,))
        yield from _exhaustive(3)
        yield from _random(ctx, "q", 500, 30)
    else:
        yield from _exhaustive(4, (PREFIX,), N_CORE)
        yield from _exhaustive(3, (PREFIX2, PREFIX3))
        yield from _random(ctx, "t", 6000, 30)


def model_line(c):
    return {k: v for k, v in c.items() if k != "_t"}


def case_key(c):
    return c["ops"]


def _show(o):
    return ("%s(%s)" % (o["q"], ", ".join("%s=%r" % kv for kv in sorted(o.items()) if kv[0] != "q"))) if "q" in o else reg._show_op(o)


def show(c):
    return [_show(o) for o in c["_t"]["ops"][:10]]


def _ckey(e):
    return (e[0] is not None, e[0] or "", e[1], e[2])


def _run(ops, flags=True):
    """The history on a fresh private database: per step the outcome and whether the registry changed."""
    from barril.units.unit_database import UnitDatabase

    db = reg._new_db()
    outs = []
    UnitDatabase.PushSingleton(db)
    try:
        for op in ops:
            before = rc.snapshot(db) if flags else None
            o = rc.ask(db, op) if "q" in op else rc.apply_reg(db, op)
            if flags:
                o = dict(o, changed=(rc.snapshot(db) != before))
            outs.append(o)
        memo = sorted([k[0], k[1], bool(v)] for k, v in db._category_unit_valid.items())
        simple = {k: q for k, q in db.quantities_cache.items()
                  if len(k) == 3 and isinstance(k[1], str) and (k[0] is None or isinstance(k[0], str))}
        cache = sorted(([k[0], k[1], k[2] is not None, q.GetCategory(), q.GetUnit()] for k, q in simple.items()), key=_ckey)
        # keys of derived quantities: tuples of (category, (unit, exponent)) pairs
        dcache = sorted(([[p[0], p[1][0], int(p[1][1])] if isinstance(p, tuple) and len(p) == 2 else ["<caption>", repr(p), 0]
                          for p in k] for k in db.quantities_cache if k not in simple), key=repr)
        limits = {k: (ci.min_value, ci.max_value) for k, ci in db.categories_to_quantity_types.items()}
    finally:
        UnitDatabase.PopSingleton()
    return outs, memo, cache, limits, dcache


def impl(c, ctx):
    ops = c["_t"]["ops"]
    outs, memo, cache, limits, dcache = _run(ops)
    n = ctx.notes.setdefault("steps", {})
    for op, o in zip(ops, outs):
        key = (op["q"] if "q" in op else "Add" + op["k"]) + ("/" + o["err"] if "err" in o else "/ok")
        n[key] = n.get(key, 0) + 1
    return dict(outs=outs, memo=memo, cache=cache, limits=limits, dcache=dcache)


def agree(c, io, mo, ctx):
    ops = c["_t"]["ops"]
    if len(io["outs"]) != len(mo.get("outs", [])):
        return "length"
    for i, (op, a, b) in enumerate(zip(ops, io["outs"], mo["outs"])):
        if "q" in op:
            lim = None
            if op["q"] == "isValid":
                lim = (-1e300, 1e300)  # limits may have changed since; near-ties are excluded by the generator
                lim = None
            why = rc.cmp_answer(op, a, b, lim)
        else:
            why = rc.cmp_reg_out(a, b)
        if why:
            return "step %d %s: %s" % (i, _show(op), why)
        if a["changed"] != b.get("changed"):
            return "step %d %s: registry changed impl=%s model=%s" % (i, _show(op), a["changed"], b.get("changed"))
    mm = sorted([rc.unsym(int(e[0])), rc.unsym(int(e[1])), e[2]] for e in mo["memo"])
    if mm != io["memo"]:
        return "_category_unit_valid after the history: impl=%s model=%s" % (io["memo"][:8], mm[:8])
    mc = sorted(([None if e[0] is None else rc.unsym(int(e[0])), rc.unsym(int(e[1])), e[2], rc.unsym(int(e[3])),
                  rc.unsym(int(e[4]))] for e in mo["cache"]), key=_ckey)
    if mc != io["cache"]:
        return "quantities_cache after the history: impl=%s model=%s" % (io["cache"][:8], mc[:8])
    md = sorted(([[rc.unsym(int(c)), rc.unsym(int(u)), int(e)] for c, u, e in k] for k in mo.get("dcache", [])), key=repr)
    if md != io.get("dcache", []):
        return "derived keys of quantities_cache after the history: impl=%s model=%s" % (io.get("dcache", [])[:6], md[:6])
    return None


def nontrivial(c, io):
    ops = c["_t"]["ops"]
    state = 0
    for op, o in zip(ops, io["outs"]):
        if "q" in op and state in (0, 2):
            state += 1
        elif "q" not in op and "err" not in o and state == 1:
            state = 2
    return state >= 3


# ------------------------------------------------------------------------------------ the property on the real code
def _strip(o):
    return {k: v for k, v in o.items() if k != "changed"}


def _check(ops):
    from barril.units.unit_database import UnitDatabase

    db = reg._new_db()
    regs = []
    UnitDatabase.PushSingleton(db)
    try:
        for i, op in enumerate(ops):
            before = rc.snapshot(db)
            if "q" in op:
                o = rc.ask(db, op)
                if rc.snapshot(db) != before:
                    return dict(clause="a read-only operation changed what the unit database reports", step=i,
                                call=_show(op), history=[_show(x) for x in ops[: i + 1]])
            else:
                o = rc.apply_reg(db, op)
                if "err" in o and rc.snapshot(db) != before:
                    return dict(clause="a failing operation changed what the unit database reports", step=i,
                                call=_show(op), error=o["err"], history=[_show(x) for x in ops[: i + 1]])
            # the same operation on a fresh database built from the registrations accepted so far
            fresh = reg._new_db()
            UnitDatabase.PushSingleton(fresh)
            try:
                for r in regs:
                    rc.apply_reg(fresh, r)
                o2 = rc.ask(fresh, op) if "q" in op else rc.apply_reg(fresh, op)
            finally:
                UnitDatabase.PopSingleton()
            if o != o2 and not _near(o, o2):
                return dict(clause="an operation answers differently after a history of other operations than on a "
                                   "freshly built database", step=i, call=_show(op), warm=o, fresh=o2,
                            history=[_show(x) for x in ops[: i + 1]])
            if "q" not in op and "err" not in o:
                regs.append(op)
    finally:
        UnitDatabase.PopSingleton()
    return None


def _near(a, b):
    try:
        xa, xb = float.fromhex(a["ok"]["x"]), float.fromhex(b["ok"]["x"])
        return {k: v for k, v in a["ok"].items() if k != "x"} == {k: v for k, v in b["ok"].items() if k != "x"} \
            and abs(xa - xb) <= 1e-12 * max(abs(xa), abs(xb), 1.0)
    except Exception:
        return False


def oracle(c, ctx):
    return _check(c["_t"]["ops"])


ORACLE_ONLY = ("isValidU", "infoU")


def _directed():
    """Sequences for the failing-input search (real code only; they use query kinds the model does not have):
    (a) a unit-only lookup, then an overriding AddCategory with limits, then unit-only questions again;
    (b) a rejected registration that names a quantity type which does not exist yet, then questions about it."""
    pre = [reg._base("length", "m"), reg._unit("length", "cm"), reg._cat("length", "length")]
    firsts = [dict(q="createU", u="m"), dict(q="isValidU", u="m", x=5.0), dict(q="infoU", u="cm"),
              dict(q="add", c1="length", u1="m", c2="length", u2="cm", x=1.0, y=2.0)]
    overrides = [reg._cat("length", "length", override=True, min_value=0.0, max_value=10.0, default_value=1.0),
                 reg._cat("length", "length", override=True, min_value=2.0, default_unit="cm"),
                 reg._cat("length", "length", override=True, valid_units=["cm"], max_value=3.0)]
    lasts = [dict(q="isValidU", u="m", x=-1.0), dict(q="isValidU", u="cm", x=2000.0), dict(q="infoU", u="m"),
             dict(q="infoU", u="cm"), dict(q="createC", c="length"), dict(q="isValid", c="length", u="m", x=-1.0),
             dict(q="createU", u="m"), dict(q="objValidUnits", c="length", u="m")]
    for f in firsts:
        for ov in overrides:
            yield _history(pre + [f, ov] + lasts, "directed")
    pre = [reg._base("length", "m")]
    rejected = [reg._unit("distance", "m"), reg._base("distance", "m"), reg._unit("speed", "knot", fb=rc.NO_X),
                reg._unit("speed", "knot", tb=rc.SYNTAX), reg._unit("speed", "knot", fb=rc.SYNTAX)]
    for rj in rejected:
        qt = rj["qt"]
        qs = [dict(q="quantityTypes"), dict(q="checkQuantityType", qt=qt), dict(q="units", qt=qt),
              dict(q="baseUnit", qt=qt), dict(q="convert", cq=qt, u="m", v="knot", x=1.0)]
        yield _history(pre + [rj] + qs + [reg._cat("c1", qt)], "directed")
        yield _history(pre + qs[:2] + [rj] + qs, "directed")


def search(ctx):
    yield from _directed()
    yield from _exhaustive_u(3)
    yield from _exhaustive(3)
    yield from _random(ctx, "s", 1500 if ctx.tier == "quick" else 15000, 25, extra=True)


def shrink(case, failure, ctx):
    ops = list(case["_t"]["ops"])
    i, budget = 0, 80
    while i < len(ops) and budget > 0 and len(ops) > 1:
        trial = ops[:i] + ops[i + 1:]
        budget -= 1
        f = _check(trial)
        if f and f["clause"] == failure["clause"]:
            ops, failure = trial, f
        else:
            i += 1
    return _history(ops, "shrunk"), failure


# ------------------------------------------------------------------------------------ known findings (optional)
def _registers_legacy_spelling(ops):
    from barril.units.unit_database import FixUnitIfIsLegacy

    return any("q" not in o and o["k"] in ("base", "unit") and isinstance(o["unit"], str) and FixUnitIfIsLegacy(o["unit"])[0]
               for o in ops)


def matches_known(entry, case, failure):
    """input class `units-registered-under-legacy-spellings`: warm != fresh for Scalar(x, unit) when units were
    registered under spellings that FixUnitIfIsLegacy rewrites (lbmolee / lbmole / lbmol)."""
    if entry.get("matcher", {}).get("class") != "units-registered-under-legacy-spellings":
        return False
    ops = case["_t"]["ops"] if case else entry["replay_case"]["ops"]
    return failure.get("clause", "").startswith("an operation answers differently") and _registers_legacy_spelling(ops)


def replay_finding(entry, ctx):
    f = _check(entry["replay_case"]["ops"])
    return f if f and matches_known(entry, None, f) else None
