"""C16 - legacy unit spellings are exact aliases and never capture current units.

Decided by Barril/Props/C16.lean: generic theorems (any database with unique symbols, any pair
"legacy spelling l / current symbol c") for GetInfo, Convert (numbers and lists), GetDefaultCategory,
Quantity/ObtainQuantity, value-object creation (with a value and WITHOUT one: the default value of the category
converted to the unit, in categories registered with non-zero default value and limits), GetValue/GetValues,
CreateCopy (numbers and lists), GetUnitName and AddCategory (with default value and limits), the composing-mapping
forms of ObtainQuantity (dict / parallel lists with one entry of exponent 1 = the plain form; otherwise no legacy handling), plus
generated `decide +kernel` table theorems (no symbol is rewritten; every derived spelling is rewritten to
its symbol and is a fixed point afterwards; symbols unique; categories named like a type belong to it)
over the rows and the substitution list read from the current source.
Tie: `FixUnitIfIsLegacy` vs the model's `fixLegacy` on every symbol, every derived spelling and seeded
strings; the model's derivation of the spellings vs an independent one here; every derived spelling (and
its current symbol, and junk) through every API entry on private databases vs the model (`drv_legacy`)."""
import math

import translate
from common import close, dumps, err_kind, exact, qparse, qstr, sym, unsym

ID = "C16"
LEAN_MODULES = ["Barril.Props.C16"]
DRIVERS = ["drv_legacy"]
DRIVER_EXE = "drv_legacy"
RULE = ("exhaustive part: FixUnitIfIsLegacy on every symbol of the three self-built databases and on every "
        "derived legacy spelling (for every table symbol u and every (legacy, current) entry with current in u: "
        "u.replace(current, legacy)); every derived spelling l of c, and c itself, through GetInfo (4 type "
        "arguments x fix_unknown x fix_legacy), GetDefaultCategory, ObtainQuantity and Scalar/Array/"
        "FractionScalar creation (no category, default category, every category of the type up to 3, a foreign "
        "and an unknown category), GetValue/CreateCopy/GetValues from 3 source units, Convert and Convert on "
        "list/tuple/ndarray from and to 3 other units and between the two spellings, AddCategory with the "
        "spelling as valid and/or default unit; for every derived spelling 4-6 categories registered for the case "
        "on the private database (default unit: base / another / the aliased unit in both spellings; seeded NON-ZERO "
        "default value, seeded limits and exclusivity incl. the rejected combinations) and in them Scalar/"
        "FractionScalar/Array/FixedArray created WITHOUT a value in both spellings (then read in a third unit) and "
        "Scalar/FractionScalar.CreateCopy(unit=) / ChangeScalars; GetUnitName, GetFormattedValue/GetFormatted(unit), Array/FixedArray."
        "CreateCopy(unit=), FixedArray / Scalar((v,u)) / Scalar(cat,v,u) / FractionScalar(cat,v,u) construction; "
        "the composing-mapping forms of ObtainQuantity - {category: [unit, exp]} as OrderedDict/dict with list/tuple cells and "
        "the parallel lists [(unit, exp)], category (list/tuple/str/None/empty) - with ONE entry of exponent 1 in both spellings "
        "(own categories, a foreign and an unknown one) and, for both spellings, with other exponents, two or three entries, "
        "zip-truncated and duplicate category lists, junk cells and the empty mapping; "
        "seeded part: strings glued from legacy/current fragments, "
        "symbol pieces and noise through the rewrite, junk units and categories through every entry; "
        "distinct = distinct model line; non-trivial = the case contains a string that FixUnitIfIsLegacy rewrites")
EXHAUSTIVE = {"quick": True, "thorough": True}
ASSUMPTIONS = [
    "the memo tables (_category_unit_valid, quantities_cache) are invisible (C07/C15): the model has none",
    "float results within K*eps*M of the exact model (checked, not proved); a value read in the legacy spelling "
    "of its own unit goes through from(to(x)) in floats and may differ from x by rounding",
    "AddCategory: unit arguments, default value, limits and exclusivity flags are modelled (caption always passed, "
    "no from_category)",
    "GetFormatted(unit): the number is predicted by the model of GetValue and the formatted VALUE is compared between "
    "the spellings; the suffix echoes the unit argument as written and is not compared; FractionScalar values have "
    "a zero fractional part",
    "composing-mapping forms of ObtainQuantity: run on a cold quantities_cache (cleared before the call on the private "
    "database; a warm cache answers before the mapping class is looked at - C07/C15's subject); cells are (str, int); a "
    "derived result is compared through GetComposingCategories/GetComposingUnits (its category/unit STRINGS are C05's); in a "
    "really composing mapping the library rejects legacy spellings (CheckQuantityTypeUnit, fix_legacy=False): modelled and "
    "proved (`obtainFromMapping_rejects_legacy`), the oracle speaks for the one-entry exponent-1 form only",
    "a legacy fragment that is the empty string is not modelled (str.replace('', x) inserts everywhere)",
]
KINDS = ("posc", "nocat", "simple")
UNIT_FIELDS = ("u", "unit", "to", "from", "default", "then_unit", "then_to")


# ------------------------------------------------------------------------------------------- setup
def derive_pairs(db, legacy):
    out = []
    for u in db.unit_to_unit_info:
        for leg, cur in legacy:
            if cur and cur in u:
                out.append((u.replace(cur, leg), u))
    return out


def setup(ctx):
    from barril.units import unit_database as ud

    ctx.legacy = [(a, b) for a, b in ud._LEGACY_TO_CURRENT]
    ctx.dbs = {k: translate.build_db(k) for k in KINDS}
    ctx.pairs = {k: sorted(set(derive_pairs(ctx.dbs[k], ctx.legacy))) for k in KINDS}
    ctx.cats_of_type = {}
    for k in KINDS:
        m = {}
        for name, ci in ctx.dbs[k].categories_to_quantity_types.items():
            m.setdefault(ci.quantity_type, []).append(name)
        ctx.cats_of_type[k] = {qt: sorted(v) for qt, v in m.items()}
    ctx.counter = [0]
    ctx.notes["derived_spellings"] = {k: len(ctx.pairs[k]) for k in KINDS}
    ctx.notes["symbols"] = {k: len(ctx.dbs[k].unit_to_unit_info) for k in KINDS}


# ------------------------------------------------------------------------------------------- cases
def _s(v):
    return None if v is None else str(sym(v))


def _case(op, **t):
    """t holds Python values; the model line is derived from it"""
    line = dict(op=op)
    for k, v in t.items():
        if k in ("pair", "form", "container", "fresh", "tag", "via", "shape"):
            continue
        if k == "cells":  # composing mapping: [category | None, unit, exponent]
            line[k] = [dict(unit=_s(u), exp=str(int(e)), **({} if c is None else dict(cat=_s(c)))) for c, u, e in v]
        elif k == "catarg":  # None, a string, or a list of strings
            line[k] = [_s(x) for x in v] if isinstance(v, (list, tuple)) else _s(v)
        elif k in ("x",):
            line[k] = qstr(exact(v))
        elif k == "xs":
            line[k] = [qstr(exact(x)) for x in v]
        elif k == "valid":
            line[k] = None if v is None else [_s(u) for u in v]
        elif k in ("fix_unknown", "fix_legacy", "override", "minx", "maxx"):
            line[k] = bool(v)
        elif k in ("dv", "mn", "mx"):
            line[k] = None if v is None else qstr(exact(v))
        elif k == "dim":
            line[k] = int(v)
        elif k == "db":
            line[k] = v
        else:
            line[k] = _s(v)
    for k in ("form", "container", "tag", "via", "shape"):
        if k in t:
            line[k] = t[k]  # ignored by the driver (except shape); keeps distinct cases distinct
    line["_t"] = t
    return line


def _fix_cases(ctx, n_seeded):
    seen = set()
    for k in KINDS:
        for u in ctx.dbs[k].unit_to_unit_info:
            if u not in seen:
                seen.add(u)
                yield _case("fix", u=u, tag="symbol")
        for l, c in ctx.pairs[k]:
            if l not in seen:
                seen.add(l)
                yield _case("fix", u=l, pair=[l, c], tag="derived")
    rng = ctx.fresh_rng("C16fix")
    frags = [a for a, _ in ctx.legacy] + [b for _, b in ctx.legacy]
    syms = sorted(ctx.dbs["posc"].unit_to_unit_info)
    alphabet = "abcdefgklmnostMN0123()/. e"
    for _ in range(n_seeded):
        parts = []
        for _ in range(rng.randint(1, 4)):
            r = rng.random()
            if r < 0.45:
                f = rng.choice(frags)
                if rng.random() < 0.3 and len(f) > 1:  # a damaged fragment
                    i = rng.randrange(len(f))
                    f = f[:i] + rng.choice(["", rng.choice(alphabet)]) + f[i + (rng.random() < 0.5):]
                parts.append(f)
            elif r < 0.7:
                s = rng.choice(syms)
                i, j = sorted((rng.randrange(len(s) + 1), rng.randrange(len(s) + 1)))
                parts.append(s[i:j] if rng.random() < 0.5 else s)
            elif r < 0.85:
                parts.append(rng.choice(["/", ".", "e", "M", "k", "1000", "(", ")", "mol", "mole", "ft3", "m3", "s"]))
            else:
                parts.append("".join(rng.choice(alphabet) for _ in range(rng.randint(0, 4))))
        u = "".join(parts)
        if u not in seen and "\x00" not in u:
            seen.add(u)
            yield _case("fix", u=u, tag="seeded")
    for u in ("", "lbmolee", "1000ft3xyz", "Mk(ft3)", "M1000ft3", "gmolee/m3", "NNs/mm", "k(ft3)k(ft3)", "µmol", "1000ft3°"):
        if u not in seen:
            seen.add(u)
            yield _case("fix", u=u, tag="seeded")


def _others(db, qt, c, rng, n):
    """up to n other units of the type: the base unit first, then seeded ones"""
    units = [i.unit for i in db.quantity_types[qt] if i.unit != c]
    out = units[:1]
    rest = units[1:]
    rng.shuffle(rest)
    return out + rest[:max(0, n - 1)]


def _api_cases(ctx, kind, pairs, rng, wide):
    db = ctx.dbs[kind]
    types = sorted(db.quantity_types)
    for l, c in pairs:
        info = db.unit_to_unit_info[c]
        qt = info.quantity_type
        cats = ctx.cats_of_type[kind].get(qt, [])
        foreign_t = rng.choice([t for t in types if t != qt])
        foreign_c = (ctx.cats_of_type[kind].get(foreign_t) or [foreign_t])[0]
        defcat = db.GetDefaultCategory(c)
        catargs = [None] + ([defcat] if defcat else []) + [x for x in cats if x != defcat][:(6 if wide else 2)] + [foreign_c, "no such category"]
        x = rng.choice([1.5, -2.25, 37.0, 0.0, 1e6 * rng.random(), 7])
        xs = [rng.uniform(-100, 100) for _ in range(rng.randint(0, 4))]
        others = _others(db, qt, c, rng, 3 if wide else 2)
        for u in (l, c):
            p = [l, c] if u == l else None
            yield _case("defcat", db=kind, unit=u, pair=p)
            for qarg in [qt, (cats or [qt])[0], foreign_t, "no such type"]:
                for fu in (False, True):
                    for fl in (True, False):
                        yield _case("info", db=kind, qt=qarg, unit=u, fix_unknown=fu, fix_legacy=fl, pair=p)
            for cat in catargs:
                for form in ("quantity", "scalar", "array", "fraction"):
                    yield _case("obtain", db=kind, unit=u, cat=cat, form=form, pair=p)
            srccat = defcat or (cats[0] if cats else None)
            if srccat:
                for src in others + [c]:
                    yield _case("getvalue", db=kind, cat=srccat, unit=src, x=x, to=u, pair=p)
                    yield _case("copy", db=kind, cat=srccat, unit=src, x=x, to=u, pair=p)
                    for cont in ("list", "tuple", "ndarray"):
                        yield _case("getvalues", db=kind, cat=srccat, unit=src, xs=xs, to=u, container=cont, pair=p)
            for cq in [qt] + cats[:1] + [foreign_t]:
                for o in others + [c, l]:
                    if o == u:
                        continue
                    yield _case("convert", db=kind, cq=cq, to=o, x=x, pair=p, **{"from": u})
                    yield _case("convert", db=kind, cq=cq, to=u, x=x, pair=p, **{"from": o})
                    cont = rng.choice(["list", "tuple", "ndarray"])
                    yield _case("convertl", db=kind, cq=cq, to=o, xs=xs, container=cont, pair=p, **{"from": u})
                    yield _case("convertl", db=kind, cq=cq, to=u, xs=xs, container=cont, pair=p, **{"from": o})
        # category registration (private database; every case uses a fresh category name)
        if kind != "nocat" or True:
            o = others[0] if others else c
            for valid, default in [([l], None), ([o, l], None), (None, l), ([l, c], l), ([o], l), ([c], None), (None, c),
                                   ([o, c], c), ([l, "not a unit"], None), (None, "not a unit"), ([], l)]:
                ctx.counter[0] += 1
                name = "c16 cat %d" % ctx.counter[0]
                yield _case("addcat", db=kind, name=name, qt=qt, valid=valid, default=default, caption="Cap", override=False,
                            then_unit=rng.choice([l, c]), pair=[l, c] if (l in (valid or []) or default == l) else None)


def _limits(rng, dv):
    """(dv, mn, mx, minx, maxx) of a category registration: mostly valid, non-zero default inside the limits"""
    r = rng.random()
    span = abs(dv) + 1.0
    if r < 0.25:
        return dv, None, None, False, False
    if r < 0.45:
        return dv, dv - span, None, rng.random() < 0.5, False
    if r < 0.6:
        return dv, None, dv + span, False, rng.random() < 0.5
    if r < 0.8:
        return dv, dv - span, dv + 2 * span, rng.random() < 0.3, rng.random() < 0.3
    if r < 0.86:
        return dv, dv, dv, False, False  # the default sits on both limits
    if r < 0.9:
        return None, dv, None, False, False  # no default value: the lower limit
    if r < 0.93:
        return None, None, dv, False, False  # ... the upper limit
    if r < 0.95:
        return None, dv, None, True, False  # RuntimeError: exclusive limit without a default
    if r < 0.97:
        return dv, dv + span, None, False, False  # AssertionError: default below the minimum
    if r < 0.985:
        return dv, dv, None, True, False  # AssertionError: default on an exclusive minimum
    return dv, dv + span, dv - span, False, False  # ValueError: limits crossed


def _valueless_cases(ctx, kind, pairs, rng, wide):
    """value objects created WITHOUT a value (the default value of the category, which is expressed in the default
    unit of the category, converted to the requested unit) and copies, in categories registered for the case on
    the private database: non-zero default value, limits, every choice of default unit"""
    db = ctx.dbs[kind]
    for l, c in pairs:
        qt = db.unit_to_unit_info[c].quantity_type
        others = _others(db, qt, c, rng, 3 if wide else 2)
        base = others[0] if others else c
        # default unit of the registered category: not given (base unit), another unit, the aliased unit in both spellings
        dunits = [None] + others[1:2] + [c, l] + ([rng.choice(others)] if wide and others else [])
        for du in dunits:
            dv = rng.choice([1000.0, 2.5, -3.0, 5.0e6, 0.125, round(rng.uniform(1, 1e4), 3), -round(rng.uniform(1, 50), 2)])
            dv, mn, mx, minx, maxx = _limits(rng, dv)
            valid = rng.choice([None, None, [l, base], [c, base] + others[1:2]])
            if valid is not None and du is not None and rng.random() < 0.8:
                valid = valid + [du]
            reg = dict(db=kind, qt=qt, valid=valid, default=du, caption="Cap", override=False,
                       dv=dv, mn=mn, mx=mx, minx=minx, maxx=maxx)
            then = rng.choice(others + [c, l, None])
            forms = ["scalar", "fraction", "array", "fixed"] if (wide or du in (None, c, l)) else ["scalar", rng.choice(["fraction", "array", "fixed"])]
            for u in (l, c):
                in_reg = l in (valid or []) or du == l
                for form in forms:
                    ctx.counter[0] += 1
                    yield _case("valueless", name="c16 dv %d" % ctx.counter[0], unit=u, form=form, dim=rng.randint(2, 4),
                                then_to=then,
                                pair=[l, c] if (u == l or in_reg or then == l) else None, **reg)
                ctx.counter[0] += 1
                src = rng.choice(others + [c])
                yield _case("regcopy", name="c16 dv %d" % ctx.counter[0], unit=src, x=rng.choice([dv or 1.5, 1.5, -2.25, 37.0]),
                            to=u, via=rng.choice(["createcopy", "changescalars", "fraction"]),
                            pair=[l, c] if (u == l or in_reg) else None, **reg)
        # no unit at all: the default unit and the unconverted default value
        ctx.counter[0] += 1
        yield _case("valueless", name="c16 dv %d" % ctx.counter[0], db=kind, qt=qt, valid=None, default=l, caption="Cap",
                    override=False, dv=12.5, mn=None, mx=None, minx=False, maxx=False, unit=None,
                    form=rng.choice(["scalar", "fraction", "array", "fixed"]), dim=2, then_to=l, pair=[l, c])
        # junk unit / unit of another type
        ctx.counter[0] += 1
        yield _case("valueless", name="c16 dv %d" % ctx.counter[0], db=kind, qt=qt, valid=None, default=c, caption="Cap",
                    override=False, dv=12.5, mn=0.0, mx=None, minx=False, maxx=False,
                    unit=rng.choice(["nope", l + "x", "", "<unknown>"]), form=rng.choice(["scalar", "fraction", "array", "fixed"]),
                    dim=2, then_to=None)


def _more_entry_cases(ctx, kind, pairs, rng, wide):
    """entry points that take a unit string and were not driven before: GetUnitName, GetFormatted/GetFormattedValue,
    Array/FixedArray.CreateCopy(unit=), FixedArray/tuple/category-first construction"""
    db = ctx.dbs[kind]
    types = sorted(db.quantity_types)
    for l, c in pairs:
        qt = db.unit_to_unit_info[c].quantity_type
        cats = ctx.cats_of_type[kind].get(qt, [])
        defcat = db.GetDefaultCategory(c)
        srccat = defcat or (cats[0] if cats else None)
        others = _others(db, qt, c, rng, 2)
        foreign_t = rng.choice([t for t in types if t != qt])
        xs = [rng.uniform(-100, 100) for _ in range(rng.randint(2, 4))]
        x = rng.choice([1.5, -2.25, 37.0, 1e6 * rng.random()])
        for u in (l, c):
            p = [l, c] if u == l else None
            for qarg in [qt, (cats or [qt])[0], foreign_t, "no such type"]:
                yield _case("unitname", db=kind, qt=qarg, unit=u, pair=p)
            for cat in [None] + ([srccat] if srccat else []) + ["no such category"]:
                for form in ("fixed", "tuple", "catfirst", "fraction_catfirst"):
                    if (form == "tuple" and cat is not None) or (form in ("catfirst", "fraction_catfirst") and cat is None):
                        continue
                    yield _case("obtain", db=kind, unit=u, cat=cat, form=form, pair=p)
            if srccat:
                for src in others + [c]:
                    yield _case("formatted", db=kind, cat=srccat, unit=src, x=x, to=u, pair=p, tag="formatted")
                    for form in ("array", "fixed"):
                        yield _case("copyl", db=kind, cat=srccat, unit=src, xs=xs, to=u, form=form,
                                    container=rng.choice(["list", "tuple", "ndarray"]), pair=p)


def _map_cases(ctx, kind, pairs, rng, wide):
    """the composing-mapping forms of ObtainQuantity: {category: [unit, exp]} (OrderedDict / dict, list / tuple cells)
    and the parallel lists [(unit, exp)], [category]; one entry of exponent 1 is the plain (unit, category) form and
    so a unit-string entry point; everything else is validated WITHOUT legacy handling and becomes a derived quantity"""
    db = ctx.dbs[kind]
    types = sorted(db.quantity_types)
    allcats = sorted(db.categories_to_quantity_types)
    for l, c in pairs:
        qt = db.unit_to_unit_info[c].quantity_type
        cats = ctx.cats_of_type[kind].get(qt, [])
        defcat = db.GetDefaultCategory(c)
        own = ([defcat] if defcat else []) + [x for x in cats if x != defcat][:(3 if wide else 1)] or [qt]
        foreign_t = rng.choice([t for t in types if t != qt])
        foreign_c = (ctx.cats_of_type[kind].get(foreign_t) or [foreign_t])[0]
        second = rng.choice([x for x in allcats if x not in own] or [foreign_c])
        try:
            second_u = db.GetDefaultUnit(second)
        except Exception:
            second_u = "m"
        cells_kinds = [("odict", "listcell"), ("dict", "tuplecell")] + ([("odict", "tuplecell"), ("dict", "listcell")] if wide else [])
        for u in (l, c):
            p = [l, c] if u == l else None
            # the simple case: ONE entry of exponent 1
            for cat in own + [foreign_c, "no such category"]:
                for shape, cont in cells_kinds:
                    yield _case("obtainmap", db=kind, shape=shape, container=cont, cells=[[cat, u, 1]], pair=p)
            cat = own[0]
            for catarg, cont in [([cat], "list"), ((cat,), "tuple"), (cat, "list"), (None, "tuple"), ([], "list"),
                                 ([cat, foreign_c], "list"), (["no such category"], "tuple"), ([foreign_c], "list")]:
                yield _case("obtainmap", db=kind, shape="lists", container=cont, cells=[[None, u, 1]], catarg=catarg, pair=p)
            # really composing (or not exponent 1): no legacy handling there, for either spelling; the oracle is silent
            e = rng.choice([2, -1, 3, 0, -2])
            two = [[cat, u, rng.choice([1, 1, 2, -1])], [second, second_u, rng.choice([-1, 1, -2])]]
            if rng.random() < 0.5:
                two.reverse()
            for shape, cont in cells_kinds[:2]:
                yield _case("obtainmap", db=kind, shape=shape, container=cont, cells=[[cat, u, e]])
                yield _case("obtainmap", db=kind, shape=shape, container=cont, cells=two)
            yield _case("obtainmap", db=kind, shape=rng.choice(["odict", "dict"]), container="listcell",
                        cells=[[second, second_u, 1], [cat, u, 1], [foreign_c, rng.choice(["nope", u]), 1]][:rng.choice([2, 3])])
            pairs2 = [[None, x[1], x[2]] for x in two]
            cats2 = [x[0] for x in two]
            for catarg, cont in [(cats2, "list"), (tuple(cats2), "tuple"), (cats2[:1], "list"), ([cat, cat], "list"),
                                 (cat, "list"), (None, "list"), (["no such category", second], "list")]:
                yield _case("obtainmap", db=kind, shape="lists", container=cont, cells=pairs2, catarg=catarg)
            yield _case("obtainmap", db=kind, shape="lists", container="list", cells=[[None, u, e]],
                        catarg=rng.choice([[cat], cat, None, []]))
    for shape in ("odict", "dict", "lists"):
        yield _case("obtainmap", db=kind, shape=shape, container="listcell", cells=[], catarg=[] if shape == "lists" else None)


def _both_legacy(ctx, kind, rng, n):
    """conversions with two legacy-spelled units of one type"""
    db = ctx.dbs[kind]
    by_type = {}
    for l, c in ctx.pairs[kind]:
        by_type.setdefault(db.unit_to_unit_info[c].quantity_type, []).append((l, c))
    for qt in sorted(by_type):
        ps = by_type[qt]
        for _ in range(n):
            (l1, c1), (l2, c2) = rng.choice(ps), rng.choice(ps)
            if l1 == l2:
                continue
            yield _case("convert", db=kind, cq=qt, to=l2, x=rng.uniform(-50, 50), pair=[l1, c1], **{"from": l1})


def _junk_cases(ctx, rng, n):
    kind = "posc"
    db = ctx.dbs[kind]
    syms = sorted(db.unit_to_unit_info)
    cats = sorted(db.categories_to_quantity_types)
    types = sorted(db.quantity_types)
    leg = [l for l, _ in ctx.pairs[kind]]
    junk = ["nope", "", "1000ft3xyz", "lbmolee", "M(ft3)/", "Ns/mm", "k(ft3)/furlong", "<unknown>", "gmoles"]
    for _ in range(n):
        u = rng.choice(junk + leg + syms[:: max(1, len(syms) // 40)])
        v = rng.choice(junk + leg + syms[:: max(1, len(syms) // 40)])
        cat = rng.choice(cats + ["no such category", "Unknown", None])
        r = rng.random()
        if r < 0.15:
            yield _case("defcat", db=kind, unit=u)
        elif r < 0.35:
            yield _case("obtain", db=kind, unit=u, cat=cat, form=rng.choice(["quantity", "scalar", "array", "fraction"]))
        elif r < 0.5:
            yield _case("info", db=kind, qt=rng.choice(types + cats + ["Unknown", "nope"]), unit=u,
                        fix_unknown=rng.random() < 0.5, fix_legacy=rng.random() < 0.7)
        elif r < 0.7:
            yield _case("convert", db=kind, cq=rng.choice(types + cats + ["Unknown", "nope"]), to=v, x=2.5, **{"from": u})
        elif r < 0.8 and cat:
            src = rng.choice(syms)
            yield _case("getvalue", db=kind, cat=cat, unit=src, x=2.5, to=u)
        elif r < 0.9 and cat:
            src = rng.choice(syms)
            yield _case("copy", db=kind, cat=cat, unit=src, x=2.5, to=u)
        else:
            ctx.counter[0] += 1
            yield _case("addcat", db=kind, name=rng.choice(["c16 junk %d" % ctx.counter[0], "length", "volume"]),
                        qt=rng.choice(types + ["nope"]), valid=rng.choice([None, [u], [u, v], []]),
                        default=rng.choice([None, u, v]), caption="Cap", override=False, then_unit=u)
    # override on an existing category: a throw-away FillSimple database per case
    for valid, default in [(["km"], None), (None, "cm"), (["nope"], None)]:
        yield _case("addcat", db="simple", name="length", qt="length", valid=valid, default=default, caption="Cap",
                    override=True, then_unit="m", fresh=True)
        yield _case("addcat", db="simple", name="length", qt="length", valid=valid, default=default, caption="Cap",
                    override=False, then_unit="m", fresh=True)


def _all_cases(ctx, tier, salt):
    thorough = tier == "thorough"
    yield from _fix_cases(ctx, 100000 if thorough else 3000)
    for k in KINDS:
        yield _case("derive", db=k)
    rng = ctx.fresh_rng("C16api" + salt)
    for k in KINDS:
        yield from _api_cases(ctx, k, ctx.pairs[k], rng, thorough)
        yield from _both_legacy(ctx, k, rng, 6 if thorough else 2)
    rng2 = ctx.fresh_rng("C16valueless" + salt)
    for k in KINDS:
        yield from _valueless_cases(ctx, k, ctx.pairs[k], rng2, thorough)
        yield from _more_entry_cases(ctx, k, ctx.pairs[k], rng2, thorough)
    rng3 = ctx.fresh_rng("C16map" + salt)
    for k in KINDS:
        yield from _map_cases(ctx, k, ctx.pairs[k], rng3, thorough)
    yield from _junk_cases(ctx, ctx.fresh_rng("C16junk" + salt), 4000 if thorough else 600)


def cases(ctx):
    yield from _all_cases(ctx, ctx.tier, "corr")


def model_line(c):
    d = {k: v for k, v in c.items() if k != "_t"}
    if d["op"] == "formatted":  # predicted by the model of GetValue (the tag keeps the case distinct)
        d["op"] = "getvalue"
    return d


def case_key(c):
    return model_line(c)


def show(c):
    return dict(op=c["op"], **{k: v for k, v in c["_t"].items()})


# ------------------------------------------------------------------------------------------- real code
def _container(xs, kind):
    import numpy

    if kind == "tuple":
        return tuple(xs)
    if kind == "ndarray":
        return numpy.array(xs, dtype=float)
    return list(xs)


def _floats(r):
    return [float(v) for v in r]


def _run(op, t, ctx):
    """Execute one entry on the real code; returns Python objects (dict) or raises."""
    from barril.units import Array, FixedArray, FractionScalar, ObtainQuantity, Scalar
    from barril.units.unit_database import FixUnitIfIsLegacy, UnitDatabase

    if op == "fix":
        a, b = FixUnitIfIsLegacy(t["u"])
        return dict(legacy=bool(a), fixed=b, again=FixUnitIfIsLegacy(b)[1])
    if op == "derive":
        return dict(pairs=sorted(set(derive_pairs(ctx.dbs[t["db"]], ctx.legacy))))
    db = translate.build_db(t["db"]) if t.get("fresh") else ctx.dbs[t["db"]]
    if op == "info":
        i = db.GetInfo(t["qt"], t["unit"], fix_unknown=t["fix_unknown"], fix_legacy=t["fix_legacy"])
        return dict(unit=i.unit, qtype=i.quantity_type)
    if op == "defcat":
        return dict(cat=db.GetDefaultCategory(t["unit"]))
    if op == "unitname":
        return dict(name=db.GetUnitName(t["qt"], t["unit"]))
    if op in ("valueless", "regcopy"):
        try:
            info = db.AddCategory(t["name"], t["qt"], valid_units=t["valid"], override=t["override"],
                                  default_unit=t["default"], default_value=t["dv"], min_value=t["mn"], max_value=t["mx"],
                                  is_min_exclusive=t["minx"], is_max_exclusive=t["maxx"], caption=t["caption"])
        except Exception as e:
            raise _RegisterError(err_kind(e))
        UnitDatabase.PushSingleton(db)
        try:
            if op == "regcopy":
                try:
                    s = (FractionScalar if t["via"] == "fraction" else Scalar)(t["x"], t["unit"], t["name"])
                except Exception as e:
                    raise _SourceError(err_kind(e))
                if t["via"] == "changescalars":
                    from barril.units import ChangeScalars

                    class Owner:
                        pass

                    owner = Owner()
                    owner.attr = s
                    ChangeScalars(owner, attr=(None, t["to"]))
                    o = owner.attr
                else:
                    o = s.CreateCopy(unit=t["to"])
                return dict(cat=o.GetCategory(), unit=o.GetUnit(), x=float(o.GetValue()), obj=o)
            form, u, name = t["form"], t["unit"], t["name"]
            kw = {} if u is None else dict(unit=u)
            if form == "scalar":
                o = Scalar(name, **kw)
            elif form == "fraction":
                o = FractionScalar(name, **kw)
            elif form == "array":
                o = Array(name, **kw)
            else:
                o = FixedArray(t["dim"], name, **kw)
            out = dict(cat=o.GetCategory(), unit=o.GetUnit(), obj=o, dvalue=float(info.default_value), dunit=info.default_unit)
            if form in ("scalar", "fraction"):
                out["x"] = float(o.GetValue())
            else:
                out["xs"] = _floats(o.GetValues())
            if t["then_to"] is not None:
                try:
                    if form in ("scalar", "fraction"):
                        out["then"] = dict(x=float(o.GetValue(t["then_to"])))
                    else:
                        out["then"] = dict(xs=_floats(o.GetValues(t["then_to"])))
                except Exception as e:
                    out["then"] = dict(err=err_kind(e))
            return out
        finally:
            UnitDatabase.PopSingleton()
    if op == "convert":
        r = db.Convert(t["cq"], t["from"], t["to"], t["x"])
        return dict(x=float(r))
    if op == "convertl":
        r = db.Convert(t["cq"], t["from"], t["to"], _container(t["xs"], t["container"]))
        return dict(xs=_floats(r))
    if op == "addcat":
        info = db.AddCategory(t["name"], t["qt"], valid_units=t["valid"], override=t["override"],
                              default_unit=t["default"], caption=t["caption"])
        out = dict(valid=None if info.valid_units is None else list(info.valid_units), default=info.default_unit,
                   qtype=info.quantity_type, info=info)
        UnitDatabase.PushSingleton(db)
        try:
            try:
                q = ObtainQuantity(t["then_unit"], t["name"])
                out["then"] = dict(cat=q.GetCategory(), unit=q.GetUnit())
            except Exception as e:
                out["then"] = dict(err=err_kind(e))
        finally:
            UnitDatabase.PopSingleton()
        return out
    UnitDatabase.PushSingleton(db)
    try:
        if op == "obtain":
            form = t.get("form", "quantity")
            if form == "quantity":
                q = ObtainQuantity(t["unit"], t["cat"])
                return dict(cat=q.GetCategory(), unit=q.GetUnit(), obj=q)
            if form == "scalar":
                o = Scalar(1.5, t["unit"], t["cat"]) if t["cat"] is not None else Scalar(1.5, t["unit"])
                return dict(cat=o.GetCategory(), unit=o.GetUnit(), obj=o, val_ok=(o.GetValue() == 1.5))
            if form == "array":
                o = Array([1.5, 2.5], t["unit"], t["cat"]) if t["cat"] is not None else Array([1.5, 2.5], t["unit"])
                return dict(cat=o.GetCategory(), unit=o.GetUnit(), obj=o, val_ok=(list(o.GetValues()) == [1.5, 2.5]))
            if form == "fixed":
                o = FixedArray(2, t["cat"], [1.5, 2.5], t["unit"]) if t["cat"] is not None else FixedArray(2, [1.5, 2.5], t["unit"])
                return dict(cat=o.GetCategory(), unit=o.GetUnit(), obj=o, val_ok=(list(o.GetValues()) == [1.5, 2.5]))
            if form == "tuple":
                o = Scalar((1.5, t["unit"]))
                return dict(cat=o.GetCategory(), unit=o.GetUnit(), obj=o, val_ok=(o.GetValue() == 1.5))
            if form == "catfirst":
                o = Scalar(t["cat"], 1.5, t["unit"])
                return dict(cat=o.GetCategory(), unit=o.GetUnit(), obj=o, val_ok=(o.GetValue() == 1.5))
            if form == "fraction_catfirst":
                o = FractionScalar(t["cat"], 1.5, t["unit"])
                return dict(cat=o.GetCategory(), unit=o.GetUnit(), obj=o, val_ok=(float(o.GetValue()) == 1.5))
            o = FractionScalar(1.5, t["unit"], t["cat"]) if t["cat"] is not None else FractionScalar(1.5, t["unit"])
            return dict(cat=o.GetCategory(), unit=o.GetUnit(), obj=o, val_ok=(float(o.GetValue()) == 1.5))
        if op == "obtainmap":
            from collections import OrderedDict

            # cold cache: the model has none, and a warm quantities_cache answers before the mapping is looked at
            db.quantities_cache.clear()
            cell = tuple if t["container"] in ("tuplecell", "tuple") else list
            if t["shape"] == "lists":
                units = [(u, e) for _, u, e in t["cells"]]
                cat = t["catarg"]
                if t["container"] == "tuple":
                    units = tuple(units)
                q = ObtainQuantity(units, cat)
            elif t["shape"] == "odict":
                q = ObtainQuantity(OrderedDict((c, cell([u, e])) for c, u, e in t["cells"]))
            else:
                q = ObtainQuantity({c: cell([u, e]) for c, u, e in t["cells"]})
            if q.IsDerived():
                return dict(derived=True, cats=list(q.GetComposingCategories()), units=[list(x) for x in q.GetComposingUnits()],
                            cat=q.GetCategory(), unit=q.GetUnit(), obj=q)
            return dict(derived=False, cat=q.GetCategory(), unit=q.GetUnit(), obj=q)
        if op == "getvalue":
            s = _source(Scalar, t["x"], t)
            return dict(x=float(s.GetValue(t["to"])))
        if op == "copy":
            s = _source(Scalar, t["x"], t)
            o = s.CreateCopy(unit=t["to"])
            return dict(cat=o.GetCategory(), unit=o.GetUnit(), x=float(o.GetValue()), obj=o)
        if op == "getvalues":
            a = _source(Array, _container(t["xs"], t["container"]), t)
            return dict(xs=_floats(a.GetValues(t["to"])))
        if op == "formatted":
            s = _source(Scalar, t["x"], t)
            return dict(x=float(s.GetValue(t["to"])), fmt=s.GetFormattedValue(t["to"]), full=s.GetFormatted(t["to"]))
        if op == "copyl":
            vals = _container(t["xs"], t["container"])
            try:
                a = Array(vals, t["unit"], t["cat"]) if t["form"] == "array" else FixedArray(len(t["xs"]), t["cat"], vals, t["unit"])
            except Exception as e:
                raise _SourceError(err_kind(e))
            o = a.CreateCopy(unit=t["to"])
            return dict(cat=o.GetCategory(), unit=o.GetUnit(), xs=_floats(o.GetValues()), obj=o, same_class=type(o) is type(a))
    finally:
        UnitDatabase.PopSingleton()
    raise ValueError("unknown op %r" % op)


class _SourceError(Exception):
    pass


class _RegisterError(Exception):
    pass


def _source(cls, value, t):
    try:
        return cls(value, t["unit"], t["cat"])
    except Exception as e:
        raise _SourceError(err_kind(e))


def _canon(op, r):
    if op == "fix":
        return dict(ok=_s(r["fixed"]), legacy=r["legacy"], again=_s(r["again"]))
    if op == "derive":
        return dict(ok=[[_s(a), _s(b)] for a, b in r["pairs"]])
    if op == "info":
        return dict(ok=_s(r["unit"]), qtype=_s(r["qtype"]))
    if op == "defcat":
        return dict(ok=_s(r["cat"]), is_none=r["cat"] is None)
    if op in ("convert", "getvalue"):
        return dict(ok=float(r["x"]).hex())
    if op == "formatted":
        return dict(ok=float(r["x"]).hex(), fmt=r["fmt"], full=r["full"])
    if op == "unitname":
        return dict(ok=_s(r["name"]))
    if op == "copyl":
        return dict(ok=dict(cat=_s(r["cat"]), unit=_s(r["unit"]), xs=[float(v).hex() for v in r["xs"]]), same_class=r["same_class"])
    if op == "regcopy":
        return dict(ok=dict(cat=_s(r["cat"]), unit=_s(r["unit"]), x=float(r["x"]).hex()))
    if op == "valueless":
        ok = dict(cat=_s(r["cat"]), unit=_s(r["unit"]))
        if "x" in r:
            ok["x"] = float(r["x"]).hex()
        else:
            ok["xs"] = [float(v).hex() for v in r["xs"]]
        out = dict(ok=ok, dvalue=float(r["dvalue"]).hex(), dunit=_s(r["dunit"]))
        if "then" in r:
            th = r["then"]
            out["then"] = (dict(err=th["err"]) if "err" in th else
                           dict(ok=float(th["x"]).hex()) if "x" in th else dict(ok=[float(v).hex() for v in th["xs"]]))
        return out
    if op in ("convertl", "getvalues"):
        return dict(ok=[float(v).hex() for v in r["xs"]])
    if op == "obtain":
        return dict(ok=dict(cat=_s(r["cat"]), unit=_s(r["unit"])), val_ok=r.get("val_ok", True))
    if op == "obtainmap":
        if r["derived"]:
            return dict(ok=dict(kind="derived", cells=[[_s(c), _s(u), str(int(e))] for c, (u, e) in zip(r["cats"], r["units"])]),
                        n_ok=len(r["cats"]) == len(r["units"]))
        return dict(ok=dict(kind="simple", cat=_s(r["cat"]), unit=_s(r["unit"])), n_ok=True)
    if op == "copy":
        return dict(ok=dict(cat=_s(r["cat"]), unit=_s(r["unit"]), x=float(r["x"]).hex()))
    if op == "addcat":
        th = r["then"]
        th = dict(err=th["err"]) if "err" in th else dict(cat=_s(th["cat"]), unit=_s(th["unit"]))
        return dict(ok=dict(valid=None if r["valid"] is None else [_s(u) for u in r["valid"]], default=_s(r["default"]),
                            qtype=_s(r["qtype"]), then=th))
    raise ValueError(op)


def impl(c, ctx):
    op, t = c["op"], c["_t"]
    n = ctx.notes.setdefault("entries", {})
    try:
        out = _canon(op, _run(op, t, ctx))
    except _SourceError as e:
        out = dict(err=str(e), at="source")
    except _RegisterError as e:
        out = dict(err=str(e), at="register")
    except Exception as e:
        out = dict(err=err_kind(e))
    key = "%s/%s/%s" % (op, "legacy" if t.get("pair") else "plain", out.get("err", "ok"))
    n[key] = n.get(key, 0) + 1
    return out


def _num_ok(h, q, m):
    return close(float.fromhex(h), qparse(q), qparse(m))


def agree(c, io, mo, ctx):
    op = c["op"]
    if ("err" in io) != ("err" in mo):
        return "one side fails: impl=%s model=%s" % (dumps(io)[:200], dumps(mo)[:200])
    if "err" in io:
        if io.get("at") != mo.get("at"):
            return "failure in a different place: impl=%s model=%s" % (io, mo)
        return None if io["err"] == mo["err"] else "error kinds differ: impl=%s model=%s" % (io["err"], mo["err"])
    a, b = io["ok"], mo["ok"]
    if op == "fix":
        if a != b or io["legacy"] != mo["legacy"] or io["again"] != mo["again"]:
            return "rewrite differs: impl=(%s,%r,%r) model=(%s,%r,%r)" % (
                io["legacy"], unsym(int(a)), unsym(int(io["again"])), mo["legacy"], unsym(int(b)), unsym(int(mo["again"])))
        return None
    if op == "derive":
        sa, sb = sorted(map(tuple, a)), sorted(set(map(tuple, b)))
        return None if sa == sb else "derived spellings differ: only impl %s, only model %s" % (
            [(unsym(int(x)), unsym(int(y))) for x, y in set(sa) - set(sb)][:5],
            [(unsym(int(x)), unsym(int(y))) for x, y in set(sb) - set(sa)][:5])
    if op == "info":
        return None if (a == b and io["qtype"] == mo["qtype"]) else "GetInfo row differs"
    if op == "defcat":
        if io["is_none"] != (b is None):
            return "None-ness of the default category differs"
        return None if io["is_none"] or a == b else "default category differs"
    if op == "unitname":
        return None if a == b else "unit name differs: impl=%r model=%r" % (unsym(int(a)), unsym(int(b)))
    if op == "valueless":
        if a["cat"] != b["cat"] or a["unit"] != b["unit"]:
            return "value-less object: quantity differs: impl=(%s,%s) model=(%s,%s)" % (
                unsym(int(a["cat"])), unsym(int(a["unit"])), unsym(int(b["cat"])), unsym(int(b["unit"])))
        if io["dunit"] != mo["dunit"] or exact(float.fromhex(io["dvalue"])) != qparse(mo["dvalue"]):
            return "registered default differs: impl=(%r,%s) model=(%s,%s)" % (
                float.fromhex(io["dvalue"]), unsym(int(io["dunit"])), mo["dvalue"], unsym(int(mo["dunit"])))
        if ("x" in a) != ("x" in b):
            return "value-less object: one side has a number, the other a list"
        if "x" in a:
            if not _num_ok(a["x"], b["x"], mo["M"]):
                return "default value in the unit: impl %r, model %s" % (float.fromhex(a["x"]), float(qparse(b["x"])))
        else:
            if len(a["xs"]) != len(b["xs"]) or any(exact(float.fromhex(x)) != qparse(y) for x, y in zip(a["xs"], b["xs"])):
                return "default values differ: impl %r model %r" % (a["xs"], b["xs"])
        ta, tb = io.get("then"), mo.get("then")
        if (ta is None) != (tb is None):
            return "then-step present on one side only"
        if ta is not None:
            if ("err" in ta) != ("err" in tb):
                return "then-step: one side fails: impl=%s model=%s" % (ta, tb)
            if "err" in ta:
                return None if ta["err"] == tb["err"] else "then-step error kinds differ: impl=%s model=%s" % (ta["err"], tb["err"])
            if isinstance(ta["ok"], list):
                if len(ta["ok"]) != len(tb["ok"]) or not all(_num_ok(x, y, tb["M"]) for x, y in zip(ta["ok"], tb["ok"])):
                    return "then-step values differ"
            elif not _num_ok(ta["ok"], tb["ok"], tb["M"]):
                return "then-step value: impl %r, model %s" % (float.fromhex(ta["ok"]), float(qparse(tb["ok"])))
        return None
    if op == "regcopy":
        if a["cat"] != b["cat"] or a["unit"] != b["unit"]:
            return "copy quantity differs"
        return None if _num_ok(a["x"], b["x"], mo["M"]) else "copy value differs"
    if op == "copyl":
        if not io.get("same_class", True):
            return "the copy is of another class"
        if a["cat"] != b["cat"] or a["unit"] != b["unit"]:
            return "copy quantity differs"
        if len(a["xs"]) != len(b["xs"]) or not all(_num_ok(x, y, mo["M"]) for x, y in zip(a["xs"], b["xs"])):
            return "copy values differ"
        return None
    if op in ("convert", "getvalue", "formatted"):
        if c["_t"].get("from", c["_t"].get("unit")) == c["_t"]["to"]:
            return None if exact(float.fromhex(a)) == qparse(b) else "same-unit value not exact"
        return None if _num_ok(a, b, mo["M"]) else "value %r not within K*eps*M of %s" % (float.fromhex(a), float(qparse(b)))
    if op in ("convertl", "getvalues"):
        if len(a) != len(b):
            return "lengths differ"
        for x, y in zip(a, b):
            if not _num_ok(x, y, mo["M"]):
                return "element %r not within K*eps*M of %s" % (float.fromhex(x), float(qparse(y)))
        return None
    if op == "obtain":
        if not io.get("val_ok", True):
            return "the value was not stored as given"
        return None if a == b else "quantity differs: impl=(%s,%s) model=(%s,%s)" % (
            unsym(int(a["cat"])), unsym(int(a["unit"])), unsym(int(b["cat"])), unsym(int(b["unit"])))
    if op == "obtainmap":
        if not io.get("n_ok", True):
            return "composing categories and composing units of different lengths"
        return None if a == b else "quantity from the mapping differs: impl=%s model=%s" % (dumps(a)[:300], dumps(b)[:300])
    if op == "copy":
        if a["cat"] != b["cat"] or a["unit"] != b["unit"]:
            return "copy quantity differs"
        return None if _num_ok(a["x"], b["x"], mo["M"]) else "copy value differs"
    if op == "addcat":
        return None if a == b else "registered category differs: impl=%s model=%s" % (dumps(a)[:300], dumps(b)[:300])
    return "unknown op"


def nontrivial(c, io):
    from barril.units.unit_database import FixUnitIfIsLegacy

    t = c["_t"]
    vals = [t.get(k) for k in UNIT_FIELDS] + list(t.get("valid") or []) + [x[1] for x in t.get("cells") or []]
    return any(isinstance(v, str) and FixUnitIfIsLegacy(v)[0] for v in vals) or c["op"] == "derive"


# ------------------------------------------------------------- the property itself, on the real code only
def _subst(t, l, c):
    t2 = dict(t)
    for k in UNIT_FIELDS:
        if t2.get(k) == l:
            t2[k] = c
    if t2.get("valid") is not None:
        t2["valid"] = [c if v == l else v for v in t2["valid"]]
    if t2.get("cells") is not None:
        t2["cells"] = [[a, c if u == l else u, e] for a, u, e in t2["cells"]]
    return t2


def _near(a, b):
    if a == b:
        return True
    if not (math.isfinite(a) and math.isfinite(b)):
        return False
    return abs(a - b) <= 1e-9 * max(abs(a), abs(b)) + 1e-300


def _same(op, rl, rc):
    """is the legacy-spelled result equal to the current-spelled one?"""
    if op in ("convert", "getvalue"):
        return _near(rl["x"], rc["x"])
    if op in ("convertl", "getvalues"):
        return len(rl["xs"]) == len(rc["xs"]) and all(_near(a, b) for a, b in zip(rl["xs"], rc["xs"]))
    if op == "obtain":
        if "val_ok" in rl and not rl["val_ok"]:
            return False
        return rl["obj"] == rc["obj"] and rl["unit"] == rc["unit"] and rl["cat"] == rc["cat"]
    if op == "obtainmap":  # the equal quantity: same object class of equality, hash, category, unit, derivedness
        return (rl["obj"] == rc["obj"] and hash(rl["obj"]) == hash(rc["obj"]) and rl["unit"] == rc["unit"]
                and rl["cat"] == rc["cat"] and rl["derived"] == rc["derived"])
    if op in ("copy", "regcopy"):
        return rl["unit"] == rc["unit"] and rl["cat"] == rc["cat"] and _near(rl["x"], rc["x"])
    if op == "copyl":
        return (rl["unit"] == rc["unit"] and rl["cat"] == rc["cat"] and len(rl["xs"]) == len(rc["xs"])
                and all(_near(a, b) for a, b in zip(rl["xs"], rc["xs"])))
    if op == "formatted":  # the conversion result, as a number and as formatted; the suffix echoes the argument
        return _near(rl["x"], rc["x"]) and rl["fmt"] == rc["fmt"]
    if op == "valueless":
        if (rl["unit"], rl["cat"], rl["dunit"]) != (rc["unit"], rc["cat"], rc["dunit"]) or not _near(rl["dvalue"], rc["dvalue"]):
            return False
        if "x" in rl:
            if not _near(rl["x"], rc["x"]):
                return False
        elif len(rl["xs"]) != len(rc["xs"]) or not all(_near(a, b) for a, b in zip(rl["xs"], rc["xs"])):
            return False
        tl, tc = rl.get("then"), rc.get("then")
        if tl is None or tc is None or "err" in tc:
            return tl is None and tc is None or (tc is not None and "err" in tc)
        if "err" in tl:
            return False
        if "x" in tl:
            return _near(tl["x"], tc["x"])
        return len(tl["xs"]) == len(tc["xs"]) and all(_near(a, b) for a, b in zip(tl["xs"], tc["xs"]))
    if op == "addcat":
        return (rl["valid"], rl["default"], rl["qtype"], rl["then"]) == (rc["valid"], rc["default"], rc["qtype"], rc["then"])
    return {k: v for k, v in rl.items() if k != "obj"} == {k: v for k, v in rc.items() if k != "obj"}


def _fix_facts(ctx, l, c):
    from barril.units.unit_database import FixUnitIfIsLegacy

    a, b = FixUnitIfIsLegacy(l)
    if not a or b != c:
        return dict(clause="a derived legacy spelling is rewritten to its current symbol", spelling=l, current=c, got=[a, b])
    a2, b2 = FixUnitIfIsLegacy(b)
    if a2 or b2 != b:
        return dict(clause="rewriting is idempotent", spelling=l, once=b, twice=b2)
    return None


def oracle(c, ctx):
    from barril.units.unit_database import FixUnitIfIsLegacy

    op, t = c["op"], c["_t"]
    if op == "fix":
        u = t["u"]
        if any(u in ctx.dbs[k].unit_to_unit_info for k in KINDS):
            a, b = FixUnitIfIsLegacy(u)
            if a or b != u:
                return dict(clause="no current unit symbol is rewritten", symbol=u, rewritten_to=b)
        if t.get("pair"):
            return _fix_facts(ctx, *t["pair"])
        return None
    if op == "derive":
        for l, c2 in sorted(set(derive_pairs(ctx.dbs[t["db"]], ctx.legacy))):
            f = _fix_facts(ctx, l, c2)
            if f:
                return f
        for u in ctx.dbs[t["db"]].unit_to_unit_info:
            a, b = FixUnitIfIsLegacy(u)
            if a or b != u:
                return dict(clause="no current unit symbol is rewritten", symbol=u, rewritten_to=b)
        return None
    if not t.get("pair"):
        return None
    l, cur = t["pair"]
    if cur not in ctx.dbs[t["db"]].unit_to_unit_info or l in ctx.dbs[t["db"]].unit_to_unit_info:
        return None
    if op == "info" and not t["fix_legacy"]:
        return None  # the caller asked for no legacy handling
    t_cur = _subst(t, l, cur)
    if op == "addcat":  # two fresh names, so that both registrations are first registrations
        ctx.counter[0] += 2
        t = dict(t, name="c16 oracle %d" % ctx.counter[0])
        t_cur = dict(t_cur, name="c16 oracle %d" % (ctx.counter[0] + 1))
    if op in ("valueless", "regcopy"):  # one fresh name, registered again (override) for the second spelling
        ctx.counter[0] += 1
        t = dict(t, name="c16 oracle %d" % ctx.counter[0], override=True)
        t_cur = dict(t_cur, name=t["name"], override=True)
    if op in ("convert", "convertl") and t_cur["from"] == t_cur["to"]:
        # between the two spellings of one unit: the current spelling takes the same-unit shortcut, which does
        # not even look at the category; the property speaks only when the category/type has the unit
        try:
            db = ctx.dbs[t["db"]]
            base = db.GetBaseUnit(db.unit_to_unit_info[cur].quantity_type)
            others = [i.unit for i in db.quantity_types[db.unit_to_unit_info[cur].quantity_type] if i.unit != cur]
            db.Convert(t["cq"], cur, base if base != cur else (others[0] if others else cur), 1.0)
            db.GetInfo(db.unit_to_unit_info[cur].quantity_type, cur)
            if t["cq"] not in db.categories_to_quantity_types and t["cq"] != db.unit_to_unit_info[cur].quantity_type:
                return None
            if t["cq"] in db.categories_to_quantity_types and \
                    db.categories_to_quantity_types[t["cq"]].quantity_type != db.unit_to_unit_info[cur].quantity_type:
                return None
        except Exception:
            return None
    try:
        rc = _run(op, t_cur, ctx)
    except Exception:
        return None  # the current spelling is not accepted here: the property does not speak
    try:
        rl = _run(op, t, ctx)
    except Exception as e:
        return dict(clause="a legacy spelling is accepted wherever the current one is", entry=op,
                    case={k: v for k, v in t.items() if k != "pair"}, legacy=l, current=cur, error=repr(e)[:300])
    if op == "obtainmap" and t["shape"] != "lists" and len(t["cells"]) == 1:
        from barril.units import ObtainQuantity
        from barril.units.unit_database import UnitDatabase

        UnitDatabase.PushSingleton(ctx.dbs[t["db"]])
        try:
            try:
                plain = ObtainQuantity(cur, t["cells"][0][0])
            except Exception:
                plain = None
        finally:
            UnitDatabase.PopSingleton()
        if plain is not None and not (rl["obj"] == plain and hash(rl["obj"]) == hash(plain) and not rl["derived"]):
            return dict(clause="a one-entry mapping with a legacy spelling gives the quantity of ObtainQuantity(current, category)",
                        entry=op, case={k: v for k, v in t.items() if k != "pair"}, legacy=l, current=cur,
                        with_legacy={k: repr(v)[:200] for k, v in rl.items()}, plain=repr(plain)[:200])
    if op == "addcat":
        rl, rc = dict(rl), dict(rc)
        for r in (rl, rc):
            if "cat" in r["then"]:
                r["then"] = dict(r["then"], cat="<the new category>")
    if not _same(op, rl, rc):
        return dict(clause="a legacy spelling gives the result of the current one", entry=op,
                    case={k: v for k, v in t.items() if k != "pair"}, legacy=l, current=cur,
                    with_legacy={k: repr(v)[:200] for k, v in rl.items() if k != "info"},
                    with_current={k: repr(v)[:200] for k, v in rc.items() if k != "info"})
    return None


def table_candidates(ctx):
    """symbols on which a C16 table predicate is false (evaluated by the model), as `fix` cases"""
    import engine

    out = []
    for kind in KINDS:
        res, _ = engine.run_driver(DRIVER_EXE, [dumps(dict(op="badrows", db=kind))])
        for s in res[0].get("rows", []):
            u = unsym(int(s))
            out.append(_case("fix", u=u, tag="symbol"))
            for l, c in ctx.pairs[kind]:
                if c == u:
                    out.append(_case("fix", u=l, pair=[l, c], tag="derived"))
    ctx.notes["rows_failing_table_predicates"] = len(out)
    return out


def search(ctx):
    yield from _all_cases(ctx, "quick", "search")
